"""C05 — every storage backend behaves like one dictionary (structural part).

Decides: keying (R1); forget scope terminated and mirrored in the cache (R2); queries are
effect-free (R3); cache replace-on-put / write-through, an entry answers and is filled only for
the memento it holds (R4); path-scheme writer/reader agreement (R5); the cache lets go of a scope
before the store starts to forget it (R2); an Iterable parameter is gone through once (R10).
Does not decide: equivalence with a model dictionary over histories.
"""
import ast
import re

from .. import astutil as A
from ..fa import FA
from ..loader import AnalysisError
from .cache_model import CacheModel, self_attr, branch_filter, both, safe_expand, value_sources, every_path_through
from .effects import reach_effects, storage_backend_classes, QUERY_METHODS, effective_function
from .keys import check_keying
from . import c06

BACKEND_BASE = "storage_base.StorageBackendBase"
MEMBACK = "storage_memory.MemoryStorageBackend"
MDS = "storage_base.DataSourceMetadataSource"
FSDS = "storage_filesystem._FilesystemDataSource"


def _no_cache(text, positive) -> bool:
    """literal: the backend has no memory cache"""
    return (not positive and text in ("self._memory_cache", "bool(self._memory_cache)")) or (positive and text == "self._memory_cache is None")


def _bind(call: ast.Call, params):
    """callee parameter name -> argument expression (positional and keyword arguments alike; `self` skipped)"""
    names = [p for p in params if p != "self"]
    out = {}
    for i, a in enumerate(call.args):
        if isinstance(a, ast.Starred):
            break
        if i < len(names):
            out[names[i]] = a
    for k in call.keywords:
        if k.arg:
            out[k.arg] = k.value
    return out


def _xt(fa: FA, e, at=None) -> str:
    """name-independent text of `e` (locals expanded), evaluated where `at` (default: e itself) is"""
    if e is None:
        return ""
    ids = fa.nodes(at if at is not None else e)
    try:
        return fa.xnorm(e, ids[0]) if ids else A.norm(e)
    except AnalysisError:
        return A.norm(e)


def _field_calls(fa: FA, field: str, method: str):
    """Calls self.<field>.<method>(...), the field named directly or through a local alias"""
    return [c for c in fa.calls(method) if A.dotted(A.call_recv(c)) == "self." + field or _xt(fa, A.call_recv(c), c) == "self." + field]


def _binder_iter(fa: FA, name_node, pm=None):
    """The iterable that binds the variable `name_node` (a Name): the enclosing comprehension generator or for-loop
    whose target is that name.  (`pm`: parent map of the tree `name_node` lives in, when that is not the function's own)"""
    if not isinstance(name_node, ast.Name):
        return None
    pm = fa.pm if pm is None else pm
    n = name_node
    while n is not None:
        n = pm.get(n)
        if isinstance(n, (ast.ListComp, ast.SetComp, ast.GeneratorExp, ast.DictComp)):
            for g in n.generators:
                if name_node.id in [x.id for x in ast.walk(g.target) if isinstance(x, ast.Name)]:
                    return g.iter
        if isinstance(n, (ast.For, ast.AsyncFor)) and name_node.id in [x.id for x in ast.walk(n.target) if isinstance(x, ast.Name)]:
            return n.iter
        if isinstance(n, ast.Lambda) and name_node.id in [a.arg for a in n.args.args]:
            # filter(lambda k: ..., iterable) / map(...)
            call = pm.get(n)
            if isinstance(call, ast.Call) and isinstance(call.func, ast.Name) and call.func.id in ("filter", "map") and len(call.args) == 2 and call.args[0] is n:
                return call.args[1]
            return None
    return None


def _prefix_tests(fa: FA, ck=None):
    """Tests "does the string S start with P", by what they compute: `S.startswith(P)`, `S[:len(P)] == P` (either operand
    order, `!=` as well, the length through a temporary), `S.find(P) == 0`; in the function's own body, comprehensions and
    lambda bodies included, and in what a single-expression helper of the same class returns for the arguments it is
    called with here (`self._keys_under(self.refs, prefix)`).
    -> [(test node, S, P, a node of the function at which S and P can be expanded, the iterable that binds S or None)]"""
    def scan(nodes, at, pm):
        out = []
        for n in nodes:
            hit = None
            if isinstance(n, ast.Call) and A.call_attr(n) == "startswith" and isinstance(n.func, ast.Attribute) and n.args:
                hit = (n.func.value, n.args[0])
            elif isinstance(n, ast.Compare) and len(n.ops) == 1 and isinstance(n.ops[0], (ast.Eq, ast.NotEq)):
                for (a, b) in ((n.left, n.comparators[0]), (n.comparators[0], n.left)):
                    if isinstance(a, ast.Subscript) and isinstance(a.slice, ast.Slice) and a.slice.step is None and a.slice.upper is not None \
                            and (a.slice.lower is None or (isinstance(a.slice.lower, ast.Constant) and a.slice.lower.value == 0)):
                        up = safe_expand(fa, a.slice.upper, at if at is not None else n)
                        if isinstance(up, ast.Call) and isinstance(up.func, ast.Name) and up.func.id == "len" and len(up.args) == 1 and not up.keywords \
                                and A.norm(up.args[0]) == A.norm(safe_expand(fa, b, at if at is not None else n)):
                            hit = (a.value, b)
                            break
                    if isinstance(a, ast.Call) and A.call_attr(a) == "find" and isinstance(a.func, ast.Attribute) and len(a.args) == 1 \
                            and isinstance(b, ast.Constant) and b.value == 0 and type(b.value) is int:
                        hit = (a.func.value, a.args[0])
                        break
            if hit is None and isinstance(n, ast.Call):
                # the same test as a callable object: operator.methodcaller('startswith', P) applied to S, or handed to
                # filter(pred, keys) (then every element of `keys` is the subject)
                mc = _startswith_caller(fa, n.func, at if at is not None else n)
                if mc is not None and len(n.args) == 1 and not n.keywords:
                    hit = (n.args[0], mc)
                elif isinstance(n.func, ast.Name) and n.func.id == "filter" and len(n.args) == 2 and not n.keywords:
                    mc = _startswith_caller(fa, n.args[0], at if at is not None else n)
                    if mc is not None:
                        out.append((n, None, mc, at if at is not None else n, n.args[1]))
                        continue
                    # filter(pred, keys) with pred a lambda held in a local: the test in its body, on each element of `keys`
                    lam = safe_expand(fa, n.args[0], at if at is not None else n) if isinstance(n.args[0], ast.Name) else None
                    if isinstance(lam, ast.Lambda) and len(lam.args.args) == 1:
                        for (t_, s_, p_, _a, _i) in scan(list(ast.walk(lam.body)), at if at is not None else n, A.parent_map(lam)):
                            if isinstance(s_, ast.Name) and s_.id == lam.args.args[0].arg:
                                out.append((t_, s_, p_, at if at is not None else n, n.args[1]))
                        continue
            if hit is not None:
                out.append((n, hit[0], hit[1], at if at is not None else n, _binder_iter(fa, hit[0], pm)))
        return out

    nodes = list(A.walk_body(fa.node))
    nodes += [x for lam in list(nodes) if isinstance(lam, ast.Lambda) for x in ast.walk(lam.body)]
    out = scan(nodes, None, None)
    cls = fa.fi.cls
    # ... and in what a single-return function nested in this one returns for the arguments it is called with here
    for c in [n for n in nodes if isinstance(n, ast.Call) and isinstance(n.func, ast.Name) and n.func.id in fa.fi.nested]:
        body = _inline_nested(fa, c)
        if body is not None:
            out += scan(list(ast.walk(body)), c, A.parent_map(body))
    if ck is not None and cls is not None:
        for c in [n for n in nodes if isinstance(n, ast.Call)]:
            f = c.func
            if isinstance(f, ast.Attribute) and isinstance(f.value, ast.Name) and f.value.id in ("self", "cls", cls.name) and f.attr in cls.methods \
                    and cls.methods[f.attr] is not fa.fi:
                body = _inline_own_builders(ck, cls, c)
                if body is not c and not (isinstance(body, ast.Call) and A.norm(body) == A.norm(c)):
                    sub = list(ast.walk(body))
                    out += scan(sub, c, A.parent_map(body))
    return out


def _startswith_caller(fa: FA, f, at):
    """`f` (through temporaries) is operator.methodcaller('startswith', P) -> P"""
    e = safe_expand(fa, f, at) if isinstance(f, ast.Name) else f
    if isinstance(e, ast.Call) and A.call_attr(e) == "methodcaller" and len(e.args) == 2 and not e.keywords and A.const_str(e.args[0]) == "startswith":
        return e.args[1]
    return None


def _inline_nested(fa: FA, call):
    """what a function nested in `fa` returns for the arguments of `call` (single return, no other statement with an effect:
    its body is assignments and the return), its own temporaries expanded; None when it is not of that shape"""
    import copy
    sub = fa.fi.nested.get(call.func.id)
    if sub is None or sub.node is None:
        return None
    body = [st for st in sub.node.body if not (isinstance(st, ast.Expr) and isinstance(st.value, ast.Constant))]
    rets = [st for st in A.all_stmts(sub.node) if isinstance(st, ast.Return) and st.value is not None]
    if len(rets) != 1 or not body or body[-1] is not rets[0] or any(not isinstance(st, (ast.Assign, ast.AnnAssign)) for st in body[:-1]):
        return None
    try:
        e = FA(fa.ck, sub).expand(rets[0].value)
    except AnalysisError:
        return None
    bound = _bind(call, sub.params)
    if set(sub.params) - set(bound):
        return None

    class S(ast.NodeTransformer):
        def visit_Name(self, x_):
            return copy.deepcopy(bound[x_.id]) if x_.id in bound and isinstance(x_.ctx, ast.Load) else x_

    return S().visit(copy.deepcopy(e))


# ---- "operation X is applied to layer F": whatever does the dispatching ------------------------------------------------
def _splice(fa: FA, args, at):
    """positional arguments with `*<tuple>` spread out (the tuple through temporaries)"""
    out = []
    for a in args:
        if isinstance(a, ast.Starred):
            v = safe_expand(fa, a.value, at)
            if isinstance(v, (ast.Tuple, ast.List)) and not any(isinstance(x, ast.Starred) for x in v.elts):
                out += list(v.elts)
                continue
        out.append(a)
    return out


def _operation_sites(fa: FA, name):
    """Where the method `name` is applied to some receiver, by what is computed: `R.name(args)`; a bound method taken first
    (`f = R.name ... f(args)`); `getattr(R, 'name')(args)` with the name through temporaries; `operator.methodcaller('name',
    args)(R)`.  -> [(call node, receiver expression, positional arguments, keyword arguments)]"""
    out = []
    for c in fa.calls():
        if not fa.nodes(c):
            continue
        f = c.func
        if isinstance(f, ast.Attribute) and f.attr == name:
            out.append((c, f.value, _splice(fa, c.args, c), list(c.keywords)))
            continue
        if isinstance(f, ast.Attribute) and f.attr == "callback" and c.args and isinstance(f.value, ast.Name) and not isinstance(c.args[0], ast.Starred):
            # `stack.callback(R.name, args)` on the ExitStack of an enclosing with block: R.name(args) runs when the block is
            # left, however it is left -- once registered it is certain to be applied
            tgt = safe_expand(fa, c.args[0], c) if isinstance(c.args[0], ast.Name) else c.args[0]
            ids_ = fa.nodes(c)
            ds_ = fa.df.reaching(ids_[0], f.value.id) if ids_ else []
            if isinstance(tgt, ast.Attribute) and tgt.attr == name and ds_ and all(
                    d.kind == "with" and isinstance(d.value, ast.Call) and (A.dotted(d.value.func) or "").split(".")[-1] == "ExitStack"
                    and d.stmt is not None and fa.inside(c, d.stmt) for d in ds_):
                out.append((c, tgt.value, _splice(fa, c.args[1:], c), list(c.keywords)))
                continue
        fx = safe_expand(fa, f, c) if isinstance(f, ast.Name) else f
        if isinstance(fx, ast.Attribute) and fx.attr == name:
            out.append((c, fx.value, _splice(fa, c.args, c), list(c.keywords)))
        elif isinstance(fx, ast.Call) and isinstance(fx.func, ast.Name) and fx.func.id == "getattr" and len(fx.args) == 2 and not fx.keywords \
                and A.const_str(safe_expand(fa, fx.args[1], c)) == name:
            out.append((c, fx.args[0], _splice(fa, c.args, c), list(c.keywords)))
        elif isinstance(fx, ast.Call) and A.call_attr(fx) == "methodcaller" and fx.args and A.const_str(safe_expand(fa, fx.args[0], c)) == name \
                and len(c.args) == 1 and not c.keywords and not isinstance(c.args[0], ast.Starred):
            out.append((c, c.args[0], _splice(fa, fx.args[1:], c), list(fx.keywords)))
    return out


def _implied(fa: FA, t, n, positive, excuse) -> bool:
    """does `t` evaluating to `positive` imply a literal accepted by `excuse`? (as cache_model.branch_filter decides it)"""
    if isinstance(t, ast.UnaryOp) and isinstance(t.op, ast.Not):
        return _implied(fa, t.operand, n, not positive, excuse)
    if isinstance(t, ast.BoolOp):
        conj = (isinstance(t.op, ast.And) and positive) or (isinstance(t.op, ast.Or) and not positive)
        parts = [_implied(fa, v, n, positive, excuse) for v in t.values]
        return any(parts) if conj else all(parts)
    try:
        (txt, pol) = fa._literal(t, n, positive)
    except AnalysisError:
        return False
    return bool(excuse(txt, pol))


def _through_properties(ck, cls, excuse):
    """`excuse` extended to literals that name a call-free single-return property of the class (`self._writable` returning
    `not self.read_only`, `self._cached` returning `self._memory_cache is not None`): the literal is excused when what the
    property returns, taken with the literal's polarity, implies an excused literal"""
    def leaf(e, positive):
        if isinstance(e, ast.UnaryOp) and isinstance(e.op, ast.Not):
            return leaf(e.operand, not positive)
        if isinstance(e, ast.BoolOp):
            conj = (isinstance(e.op, ast.And) and positive) or (isinstance(e.op, ast.Or) and not positive)
            parts = [leaf(v, positive) for v in e.values]
            return any(parts) if conj else all(parts)
        if isinstance(e, ast.Compare) and len(e.ops) == 1 and isinstance(e.ops[0], (ast.IsNot, ast.NotEq, ast.NotIn)):
            pos = {ast.IsNot: ast.Is, ast.NotEq: ast.Eq, ast.NotIn: ast.In}[type(e.ops[0])]
            return leaf(ast.Compare(left=e.left, ops=[pos()], comparators=e.comparators), not positive)
        if isinstance(e, ast.Call) and isinstance(e.func, ast.Name) and e.func.id == "bool" and len(e.args) == 1 and not e.keywords:
            return leaf(e.args[0], positive)
        return bool(excuse(A.norm(e), positive))

    def wrapped(t, p):
        if excuse(t, p):
            return True
        if cls is None or not re.fullmatch(r"self\.\w+", t):
            return False
        e = ast.parse(t, mode="eval").body
        x = _inline_properties(ck, cls, e)
        if A.norm(x) == t or any(isinstance(n, ast.Call) and not (isinstance(n.func, ast.Name) and n.func.id == "bool") for n in ast.walk(x)):
            return False
        return leaf(x, p)
    return wrapped


def _inline_properties(ck, cls, e, depth=0):
    """`self.<p>` with p a single-return property of the class (or a base) replaced by what the property returns"""
    import copy
    if cls is None:
        return e

    class T(ast.NodeTransformer):
        def visit_Attribute(self, n_):
            self.generic_visit(n_)
            if depth < 3 and isinstance(n_.value, ast.Name) and n_.value.id == "self" and isinstance(n_.ctx, ast.Load):
                m = ck.repo.find_method(cls, n_.attr)
                if m is not None and m.node is not None and "property" in m.decorators and len(m.params) == 1:
                    rets = [s_ for s_ in A.all_stmts(m.node) if isinstance(s_, ast.Return) and s_.value is not None]
                    if len(rets) == 1:
                        try:
                            body = FA(ck, m).expand(rets[0].value)
                        except AnalysisError:
                            return n_
                        body = copy.deepcopy(body)
                        if m.params[0] != "self":
                            for x_ in ast.walk(body):
                                if isinstance(x_, ast.Name) and x_.id == m.params[0]:
                                    x_.id = "self"
                        return _inline_properties(ck, cls, body, depth + 1)
            return n_

    return T().visit(copy.deepcopy(e))


def _layer_value(ck, fa: FA, e, at, field, excuse) -> bool:
    """Is the value of `e` the layer `self.<field>` -- in every case, or (given `excuse`, the literals that say the layer does
    not exist) in every case in which the layer exists?  Decided through temporaries, properties of the class, conditional
    expressions (`cache if cache else STAND_IN`) and `cache or STAND_IN`."""
    want = "self." + field
    x = _inline_properties(ck, fa.fi.cls, safe_expand(fa, e, at))
    ids = fa.nodes(at)

    def val(v):
        if A.norm(v) == want:
            return True
        if isinstance(v, ast.IfExp) and ids:
            return all(val(arm) or (excuse is not None and _implied(fa, v.test, ids[0], pol, excuse)) for (arm, pol) in ((v.body, True), (v.orelse, False)))
        if isinstance(v, ast.BoolOp) and isinstance(v.op, ast.Or) and excuse is not None and ids and val(v.values[0]):
            # `L or other`: L whenever L is truthy
            return _implied(fa, v.values[0], ids[0], False, excuse)
        return False
    return val(x)


def _every_iteration(fa: FA, lp, ids) -> bool:
    """every iteration of the loop `lp` passes one of the CFG nodes `ids`, and the loop visits every element (no break / return)"""
    if not ids or any(isinstance(n, (ast.Break, ast.Return)) for st in lp.body for n in ast.walk(st)):
        return False
    # an iteration may be skipped where the element itself is found to be missing (`if layer is None: continue`, `if layer:`):
    # the operation is then still applied to every element that exists
    var = lp.target.id if isinstance(lp.target, ast.Name) else None
    missing = branch_filter(fa, lambda t, p: var is not None and ((t == var and not p) or (t == var + " is None" and p))) if var else None
    for h in fa.nodes(lp):
        r = fa.cfg.reach([h], removed=ids, edge_ok=lambda s_, d_, l_, h=h: not (s_ == h and l_ == "F") and (missing is None or missing(s_, d_, l_)), include_start=False)
        for i in r:
            nd = fa.cfg.node(i)
            if i == h or i == fa.cfg.exit or (nd.ast is not None and not fa.inside(nd.ast, lp)):
                return False
    return True


def _iterates_layer(ck, fa: FA, lp, field, excuse) -> bool:
    """Is `self.<field>` among what the loop `lp` runs over (whenever the layer exists)?  The iterable is a tuple / list
    written out, a local list (its initial value, per arm of a conditional expression, plus what is appended on every way to
    the loop; nothing removed), or what a generator / list-returning method of the class hands out: for a generator, every
    way through it yields the layer, except on branch edges that say the layer does not exist."""
    it = lp.iter
    while isinstance(it, ast.Call) and isinstance(it.func, ast.Name) and it.func.id in _SEQ_WRAPPERS and len(it.args) == 1 and it.func.id not in ("set", "reversed", "sorted"):
        it = it.args[0]
    heads = fa.nodes(lp)
    if not heads:
        return False
    appended = []
    if isinstance(it, ast.Name):
        nm = it.id
        for c in fa.calls():
            r_ = A.call_recv(c)
            if isinstance(r_, ast.Name) and r_.id == nm:
                if A.call_attr(c) in ("remove", "pop", "clear", "reverse", "sort", "__delitem__"):
                    return False
                if A.call_attr(c) in ("append",) and len(c.args) == 1 and fa.nodes(c) and all(fa.cfg.must_pass(fa.nodes(c), h) for h in heads):
                    appended.append((c.args[0], c))
        if any(isinstance(t, ast.Subscript) and isinstance(t.value, ast.Name) and t.value.id == nm for st in fa.stmts(ast.Delete) for t in st.targets):
            return False
    if any(_layer_value(ck, fa, e, c, field, excuse) for (e, c) in appended):
        return True
    x = safe_expand(fa, it, lp)
    if fa.fi.cls is not None:
        # a generator of the class: every way through it yields the layer
        if isinstance(x, ast.Call) and isinstance(x.func, ast.Attribute) and isinstance(x.func.value, ast.Name) and x.func.value.id == "self" \
                and not x.args and not x.keywords:
            m = ck.repo.find_method(fa.fi.cls, x.func.attr)
            if m is not None and m.node is not None and any(isinstance(n, (ast.Yield, ast.YieldFrom)) for n in A.walk_body(m.node)):
                g = FA(ck, m)
                ys = [st for st in g.stmts(ast.Expr) if isinstance(st.value, ast.Yield) and st.value.value is not None
                      and _layer_value(ck, g, st.value.value, st, field, excuse)]
                nodes = g.nodes_all(ys)
                return bool(nodes) and g.cfg.exit not in g.cfg.reach([g.cfg.entry], removed=nodes, edge_ok=branch_filter(g, excuse) if excuse is not None else None)
        x = _inline_own_builders(ck, fa.fi.cls, x)

    def seq(v):
        if isinstance(v, (ast.Tuple, ast.List)):
            return any(not isinstance(el, ast.Starred) and _layer_value(ck, fa, el, lp, field, excuse) for el in v.elts)
        if isinstance(v, ast.IfExp):
            return all(seq(arm) or (excuse is not None and _implied(fa, v.test, heads[0], pol, excuse)) for (arm, pol) in ((v.body, True), (v.orelse, False)))
        if isinstance(v, ast.BinOp) and isinstance(v.op, ast.Add):
            return seq(v.left) or seq(v.right)
        return False
    return seq(x)


def _runs_with_statement(fa: FA, node, excuse) -> bool:
    """Is `node` evaluated whenever its statement runs -- or skipped only where `excuse` holds?  An operand behind `and` /
    `or` or an arm of a conditional expression is skipped when the operands before it / the test decide so: each such
    decision must imply a literal accepted by `excuse`."""
    if fa.unconditional(node):
        return True
    if excuse is None:
        return False
    ids = fa.nodes(node)
    if not ids:
        return False
    n = node
    while n is not None and not isinstance(n, ast.stmt):
        p_ = fa.pm.get(n)
        if isinstance(p_, ast.IfExp) and n is not p_.test:
            if not _implied(fa, p_.test, ids[0], n is not p_.body, excuse):
                return False
        elif isinstance(p_, ast.BoolOp) and n in p_.values and n is not p_.values[0]:
            # skipped when an earlier operand of `and` is false / of `or` is true
            skip_pol = not isinstance(p_.op, ast.And)
            if not all(_implied(fa, v, ids[0], skip_pol, excuse) for v in p_.values[:p_.values.index(n)]):
                return False
        elif isinstance(p_, (ast.ListComp, ast.SetComp, ast.GeneratorExp, ast.DictComp, ast.Lambda)):
            return False
        n = p_
    return True


def _layer_application_nodes(ck, fa: FA, name, field, excuse):
    """CFG nodes that stand for "operation `name` is applied to the layer self.<field>" (when it exists), with the sites
    -> (node ids, [(call, args, keywords)])"""
    nodes, sites = [], []
    for (c, recv, args, kws) in _operation_sites(fa, name):
        if not _runs_with_statement(fa, c, excuse):
            continue
        if _layer_value(ck, fa, recv, c, field, excuse):
            nodes += fa.nodes(c)
            sites.append((c, args, kws))
            continue
        if isinstance(recv, ast.Name):
            lp = fa.enclosing(c, ast.For)
            while lp is not None and not (isinstance(lp.target, ast.Name) and lp.target.id == recv.id):
                lp = fa.enclosing(lp, ast.For)
            if lp is not None and _every_iteration(fa, lp, fa.nodes(c)) and _iterates_layer(ck, fa, lp, field, excuse):
                nodes += fa.nodes(lp)
                sites.append((c, args, kws))
    return nodes, sites


def _check_cache_let_go_first(ck, R, fa0: FA, name):
    """The store's forget can fail half-way (it deletes several files; a recursive delete reports an error after it has
    removed the tree).  Whatever happens to it, the cache must not keep answering for what the store has let go of: when
    the store's `name` is started, the cache's `name` has already been applied (whenever a cache exists), or it is applied
    on every way on from a failure of the store's (a finally block / a handler that re-raises after it).  Decided on the
    CFG with exception edges out of every call."""
    fx = FA(ck, fa0.fi, exc_mode="all")
    mdx, _m = _layer_application_nodes(ck, fx, name, "_metadata_source", None)
    no_cache = _through_properties(ck, fx.fi.cls, _no_cache)
    ccx, _c = _layer_application_nodes(ck, fx, name, "_memory_cache", no_cache)
    if not mdx or not ccx:
        return      # reported by the mirror obligations
    nocache = branch_filter(fx, no_cache)
    cfg = fx.cfg
    bad = None
    for m in mdx:
        if m in ccx:
            # one loop over the layers applies the operation to both: the order is that of the sequence it runs through
            nd = cfg.node(m).ast
            lp = nd if isinstance(nd, ast.For) else fx.enclosing(nd, ast.For) if nd is not None else None
            seq = safe_expand(fx, lp.iter, lp) if lp is not None else None
            if isinstance(seq, (ast.Tuple, ast.List)) and not any(isinstance(e, ast.Starred) for e in seq.elts):
                ic = [i for i, e in enumerate(seq.elts) if _layer_value(ck, fx, e, lp, "_memory_cache", no_cache)]
                im = [i for i, e in enumerate(seq.elts) if _layer_value(ck, fx, e, lp, "_metadata_source", None)]
                if ic and im and min(im) < min(ic):
                    bad = m
            continue
        before = cfg.must_pass(ccx, m, edge_ok=nocache)
        # what follows a failure of the store's operation: only the exception edges out of it, then the normal flow
        after_failure = both(nocache, lambda s, d, l, m=m: (l == "exc") == (s == m))
        r = cfg.reach([m], removed=ccx, edge_ok=after_failure, include_start=False)
        if not before and (cfg.raise_exit in r or cfg.exit in r):
            bad = m
    ok = bad is None
    ck.ob(R, fa0.key(None, "cache-before-store"), ok,
          "the cache lets go of the scope before the store starts to (or on every way on from a failure of the store)" if ok else
          "%s starts self._metadata_source.%s before self._memory_cache.%s was applied and nothing applies it when the store's %s fails: a store "
          "that fails after it has removed the memento leaves the cache claiming the call is memoized and serving its value, while listings "
          "and other processes say it is gone" % (name, name, name, name),
          fa0.where(cfg.node(bad).ast if bad is not None else None))


def _forget_by_scan(ck, R, cm, ff, sw, sep):
    own = [p_ for p_ in ff.fi.params if p_ != "self"]
    slots = set()
    for (c, subj, pre, at, it) in sw:
        # the selection prefix, however it is spelled (concatenation / format / f-string, through temporaries), is
        # <function reference>.qualified_name followed by exactly the key separator
        parts = A.str_parts(safe_expand(ff, pre, at))
        ok = bool(parts) and len(parts) == 2 and parts[0][0] == "expr" and parts[1] == ("lit", sep) and bool(own) \
            and A.norm(parts[0][1]) == own[0] + ".qualified_name"
        ck.ob(R, ff.key(at, "prefix-terminated"), ok,
              "selection prefix is qualified_name + %r" % sep if ok else
              "selection prefix is not terminated by the key separator %r: 'f#1' would also select 'f#10/...'" % sep,
              ff.where(at))
        # which table do the tested keys come from: the iterable that binds the tested variable (comprehension or loop)
        if it is not None:
            todo, depth = [it], 0
            while todo and depth < 3:
                nxt = []
                for e_ in todo:
                    for a in A.attrs_in(safe_expand(ff, e_, at)):
                        slots.add(a)
                    # ... or from a variable that itself runs over the tables (`for table in (self.refs, self.cache) for key in table`)
                    for nm in [x for x in ast.walk(e_) if isinstance(x, ast.Name) and isinstance(x.ctx, ast.Load)]:
                        b_ = _binder_iter(ff, nm)
                        if b_ is not None and b_ is not e_:
                            nxt.append(b_)
                todo, depth = nxt, depth + 1
    # both refs and cache are filtered
    need = {cm.map} | ({cm.refs} if cm.refs else set())
    if slots and not need <= slots:
        # a table that is not scanned may be selected from a per-function index instead (scan the weak table, index the
        # resident map): then that index is held to the index clauses for the tables it stands for
        try:
            _forget_by_index(ck, R, cm, ff, only=sorted(need - slots))
            slots |= need
        except AnalysisError:
            pass
    ck.ob(R, ff.key(None, "slots"), need <= slots, "forget_function filters %s" % sorted(need) if need <= slots else
          "forget_function does not filter %s" % sorted(need - slots), ff.where())


def _of_slot(fa: FA, e, slot, at=None) -> bool:
    """does the container expression `e` denote (something taken out of) self.<slot>: named directly, inside a call chain
    (`self.idx.setdefault(q, set())`), or through a temporary"""
    if e is None:
        return False
    if any(self_attr(x, slot) for x in ast.walk(e)):
        return True
    try:
        return bool(fa.nodes(at if at is not None else e)) and ("attr:self." + slot) in fa.deps(e)
    except AnalysisError:
        return False


def _key_events(fa: FA, slot, ktxt, kinds):
    """CFG nodes of `fa` at which the key whose expanded text is `ktxt` is entered into (`kinds`='add') / taken out of
    (`kinds`='remove') the table self.<slot> or an inner collection taken out of it"""
    names = ("add", "append", "__setitem__") if kinds == "add" else ("pop", "discard", "remove", "__delitem__")
    out = []
    for c in fa.calls():
        if A.call_attr(c) in names and c.args and fa.nodes(c) and _of_slot(fa, A.call_recv(c), slot, c) and _xt(fa, c.args[0], c) == ktxt and fa.unconditional(c):
            out += fa.nodes(c)
    if kinds == "add":
        for st in fa.stmts(ast.Assign):
            if any(isinstance(t, ast.Subscript) and _of_slot(fa, t.value, slot, st) and _xt(fa, t.slice, st) == ktxt for t in st.targets):
                out += fa.nodes(st)
    else:
        for st in fa.stmts(ast.Delete):
            if any(isinstance(t, ast.Subscript) and _of_slot(fa, t.value, slot, st) and _xt(fa, t.slice, st) == ktxt for t in st.targets):
                out += fa.nodes(st)
    return out


def _site_covered(ck, cm, m, site, key, slot, kinds, absent_ok, depth=0):
    """Is the event "key `key` is entered into / taken out of self.<slot>" on every path of method `m` through `site` --
    or, for a private helper whose key is a parameter, on every path through each of its call sites in the class (two
    levels)?  With `absent_ok` a way may miss the event on a branch edge that says the key is not in that table.
    -> (covered, (method, node) of the uncovered site)"""
    fa = FA(ck, m)
    ids = fa.nodes(site)
    if not ids:
        return True, None
    ktxt = _xt(fa, key, site)
    ev = _key_events(fa, slot, ktxt, kinds)
    edge_ok = None
    if absent_ok:
        edge_ok = branch_filter(fa, lambda t, p: (not p) and t == "%s in self.%s" % (ktxt, slot))
    if every_path_through(fa, ids, ev, edge_ok=edge_ok):
        return True, None
    params = [p_ for p_ in m.params if p_ != "self"]
    if depth >= 2 or ktxt not in params or not m.name.startswith("_"):
        return False, (fa, site)
    callers = [(o, c) for o in cm.cls.methods.values() if o is not m for c in A.body_calls(o.node) if cm.is_self_call(c, m)]
    if not callers:
        return False, (fa, site)
    for (o, c) in callers:
        arg = _bind(c, m.params).get(ktxt)
        if arg is None:
            return False, (FA(ck, o), c)
        ok, w = _site_covered(ck, cm, o, c, arg, slot, kinds, absent_ok, depth + 1)
        if not ok:
            return False, w
    return True, None


def _forget_by_index(ck, R, cm, ff, only=None):
    """forget_function selects its keys from a per-function index (a dict slot of the cache other than the resident map)
    instead of scanning.  The selection is then only as complete as the index: at all times the index holds every key of
    the resident map AND of the weak-reference table.  Decided as two clauses over every method of the cache: (1) wherever
    a key is stored into one of the two tables it is entered into the index on every path through the store (in the method,
    or around every call of the private helper that stores); (2) wherever a key is taken out of the index it is taken out
    of both tables on every path through that site (or the way there says the table does not hold it)."""
    own = [p_ for p_ in ff.fi.params if p_ != "self"]
    cand = [f for f in getattr(cm, "aux_maps", [])]
    idx, sel_loop = None, None
    for loop in ff.stmts(ast.For):
        if not ff.nodes(loop):
            continue
        fields = {self_attr(x) for x in ast.walk(safe_expand(ff, loop.iter, loop)) if self_attr(x)}
        try:
            fields |= {d[len("attr:self."):] for d in ff.deps(loop.iter) if d.startswith("attr:self.")}
        except AnalysisError:
            pass
        for f in sorted(fields):
            if f not in (cm.map, cm.refs, cm.queue, cm.counter, cm.budget) and f not in cm.cls.methods and (not cand or f in cand):
                idx, sel_loop = f, loop
    if idx is None:
        raise AnalysisError("MemoryCache.forget_function selects its keys neither by a startswith() scan nor from an index slot (unsupported idiom)")
    sel = _xt(ff, sel_loop.iter, sel_loop)
    okq = bool(own) and (own[0] + ".qualified_name") in sel
    ck.ob(R, ff.key(None, "index-keyed-by-qualified-name"), okq, "the index is looked up by fn_reference.qualified_name" if okq else
          "the per-function index is not looked up by the function's qualified name", ff.where())
    slots = list(only) if only else [cm.map] + ([cm.refs] if cm.refs else [])
    for name, m in cm.cls.methods.items():
        if name == "__init__":
            continue
        fa = FA(ck, m)
        # (1) a key that enters a table enters the index
        for st in fa.stmts(ast.Assign):
            for t in st.targets:
                if isinstance(t, ast.Subscript) and self_attr(t.value) in slots and fa.nodes(st):
                    sl = self_attr(t.value)
                    ok, w = _site_covered(ck, cm, m, st, t.slice, idx, "add", False)
                    (wf, wn) = w if w is not None else (fa, st)
                    ck.ob(R, fa.key(st, "indexed:" + sl), ok,
                          "the key stored into %s is entered into the index %s" % (sl, idx) if ok else
                          "`%s` stores a key into self.%s that is not entered into the per-function index `%s` on every path (%s): forget_function selects "
                          "from that index only, so this entry survives forgetting its function -- is_memoized keeps answering True and the forgotten "
                          "result is served again" % (A.short(st, 50), sl, idx, wf.fi.name), wf.where(wn))
        # (2) a key that leaves the index has left both tables
        rems = [c for c in fa.calls() if A.call_attr(c) in ("discard", "remove", "pop") and c.args and fa.nodes(c) and _of_slot(fa, A.call_recv(c), idx, c)
                and not self_attr(A.call_recv(c), idx)]
        for c in rems:
            for sl in slots:
                ok, w = _site_covered(ck, cm, m, c, c.args[0], sl, "remove", True)
                (wf, wn) = w if w is not None else (fa, c)
                ck.ob(R, fa.key(c, "unindexed-only-when-gone:" + sl), ok,
                      "a key leaves the index %s only when self.%s has let go of it" % (idx, sl) if ok else
                      "`%s` takes a key out of the per-function index `%s` while self.%s may still hold it (%s): forget_function selects from the index "
                      "only, so that entry survives forgetting its function and the forgotten result is answered for again"
                      % (A.short(c, 50), idx, sl, wf.fi.name), wf.where(wn))
    # the loop removes the selected keys from every slot
    for sl in slots:
        if sl == cm.map:
            okr = bool([c for c in ff.calls(cm.evict.name) if cm.is_self_call(c, cm.evict)]) or bool(_table_removal_nodes(ff, sl))
        else:
            okr = bool(_table_removal_nodes(ff, sl))
        ck.ob(R, ff.key(None, "slots:" + sl), okr, "forget_function removes the selected keys from %s" % sl if okr else
              "forget_function does not remove the selected keys from %s" % sl, ff.where())


def check_cache_reads_own_key(ck, cm: CacheModel, R):
    """A value served by the memory cache for a call is the value that was put for THAT call: every
    value MemoryCache.read_result returns is read from the resident map / the weak table under the
    cache key of the memento it was asked about (`_cache_key_for_memento(memento)`), never under a key
    obtained elsewhere (another call that shares the stored object, a content index, ...): two calls
    that write different results under one override key have different values but equal content keys."""
    fa = FA(ck, cm.cls.methods["read_result"])
    if any(r.value is not None and not fa.nodes(r) for r in fa.returns()):
        # a return in a handler of a try body without a call (`try: e = self.cache[k] except KeyError: return self.refs[k]`): only the
        # CFG with implicit exception edges reaches it
        fa = FA(ck, cm.cls.methods["read_result"], exc_mode="all")
    ck.need(len(fa.fi.params) >= 2, "MemoryCache.read_result(memento) signature changed")
    mem = fa.fi.params[1]
    own = _cache_key_canon(ck, cm, ast.parse("self._cache_key_for_memento(%s)" % mem, mode="eval").body)
    slots = [cm.map] + ([cm.refs] if cm.refs else [])
    n = 0
    for r in fa.returns():
        if r.value is None:
            continue
        # per origin of the returned value (directly, through a temporary, or through a result variable set on several branches)
        srcs = value_sources(fa, r) or [(r.value, None)]
        ok, foreign = True, []
        for (v_, at_) in srcs:
            try:
                e = fa.expand(v_, at_) if at_ is not None else v_
            except AnalysisError:
                e = v_
            subs = [x for x in ast.walk(e) if isinstance(x, ast.Subscript) and self_attr(x.value) in slots]
            gets = [x for x in ast.walk(e) if isinstance(x, ast.Call) and A.call_attr(x) in ("get", "pop") and self_attr(A.call_recv(x)) in slots and x.args]
            keys = [x.slice for x in subs] + [x.args[0] for x in gets]
            foreign += [k for k in keys if _cache_key_canon(ck, cm, k) != own]
            ok = ok and bool(keys)
        n += 1
        ok = ok and not foreign
        ck.ob(R, fa.key(r, "reads-own-key"), ok,
              "the served value is read under the asked memento's own cache key" if ok else
              "read_result returns a value read under `%s`, not under the cache key of the memento it was asked about: a call can be answered with "
              "the value cached for another call (e.g. one that wrote a different result under the same override key)" % ([A.norm(k) for k in foreign] or ["no cache slot"])[0],
              fa.where(r))
    ck.need(n >= 1, "MemoryCache.read_result returns no value")
    # ... and, the cache being keyed by CALL, an entry answers only for the memento it holds: a memento of the same call
    # obtained before the call was memoized again has another content key, and its bytes are still in the store
    for r in fa.returns():
        for (v_, at_) in (value_sources(fa, r) if r.value is not None else []):
            try:
                txt = fa.xnorm(v_, at_)
            except AnalysisError:
                continue
            if not (txt.endswith(".value") and ("self." + cm.map) in txt):
                continue
            ok = _reached_only_holding(ck, cm, fa, at_, mem, "")
            ck.ob(R, fa.key(r, "serves-asked-memento"), ok,
                  "an entry's value is served only when the entry's memento has the content key of the memento asked about" if ok else
                  "read_result returns the value of the call's cache entry without having established that the entry's memento is the one asked "
                  "about (entry.memento.content_key == %s.content_key): the cache is keyed by call, so a memento obtained before the call was "
                  "memoized again is answered with the LATER result instead of the bytes it names" % mem, fa.where(r))
    # ... the weak table answers for a call as well, and holds the bare result: nothing in it says which memento of the call
    # the result belongs to, so a value served from it has to be tied to the asked memento some other way (K8)
    if cm.refs:
        for r in fa.returns():
            for (v_, at_) in (value_sources(fa, r) if r.value is not None else []):
                try:
                    txt = fa.xnorm(v_, at_)
                except AnalysisError:
                    continue
                if ("self." + cm.refs) not in txt:
                    continue
                ok = _reached_only_holding(ck, cm, fa, at_, mem, "") or _refs_tied_to_content_key(fa, cm, at_, mem)
                ck.ob(R, fa.key(None, "weak-table-serves-asked-memento"), ok,
                      "a result served from the weak table is tied to the memento asked about" if ok else
                      "read_result serves a result from the weak table `%s` under the call's key alone: after the call was forgotten and memoized "
                      "again with another (still alive, uncached: oversize or evicted) result, a memento obtained earlier reads the LATER result "
                      "although its own bytes are untouched in the store" % cm.refs, fa.where(r))


def _refs_tied_to_content_key(fa, cm, at, mem) -> bool:
    """Every way to the read of the weak table passed a test that compares something recorded for the key with the asked
    memento's content key (a parallel table of content keys, a key that includes the content key)."""
    conds = fa.conditions(at) if at is not None else None
    if not conds:
        return False
    return all(any(("%s.content_key" % mem) in t for (t, _p) in conj) for conj in conds)


def _holds_same_memento(ck, cm, e, positive, mem, depth=0) -> bool:
    """Does `e` evaluating to `positive` establish that the cache entry of `mem`'s own call holds a memento with the content
    key of `mem`?  `E.memento.content_key == mem.content_key` with E read from the resident map under mem's own cache key
    (either operand order, `!=` taken false, a conjunct of `and`, behind `not`), or a call of a method of the cache whose
    single return value establishes it for the argument it is given (`self.holds(mem)`, whatever it is called)."""
    import copy
    if isinstance(e, ast.UnaryOp) and isinstance(e.op, ast.Not):
        return _holds_same_memento(ck, cm, e.operand, not positive, mem, depth)
    if isinstance(e, ast.BoolOp):
        conj = (isinstance(e.op, ast.And) and positive) or (isinstance(e.op, ast.Or) and not positive)
        parts = [_holds_same_memento(ck, cm, v, positive, mem, depth) for v in e.values]
        return any(parts) if conj else all(parts)
    if isinstance(e, ast.Compare) and len(e.ops) == 1 and isinstance(e.ops[0], (ast.Eq, ast.NotEq)):
        if isinstance(e.ops[0], ast.NotEq) == positive:
            return False
        own = _cache_key_canon(ck, cm, ast.parse("self._cache_key_for_memento(%s)" % mem, mode="eval").body)
        for (a, b) in ((e.left, e.comparators[0]), (e.comparators[0], e.left)):
            if A.norm(b) != mem + ".content_key":
                continue
            if not (isinstance(a, ast.Attribute) and a.attr == "content_key" and isinstance(a.value, ast.Attribute) and a.value.attr == "memento"):
                continue
            x = a.value.value
            key = None
            if isinstance(x, ast.Subscript) and self_attr(x.value, cm.map):
                key = x.slice
            elif isinstance(x, ast.Call) and A.call_attr(x) == "get" and self_attr(A.call_recv(x), cm.map) and x.args:
                key = x.args[0]
            if key is not None and _cache_key_canon(ck, cm, key) == own:
                return True
        return False
    if isinstance(e, ast.Call) and positive and depth < 2 and isinstance(e.func, ast.Attribute) and isinstance(e.func.value, ast.Name) \
            and e.func.value.id == "self" and e.func.attr in cm.cls.methods:
        m = cm.cls.methods[e.func.attr]
        if any(isinstance(n, (ast.Yield, ast.YieldFrom)) for n in A.walk_body(m.node)):
            return False
        bound = _bind(e, m.params)
        prm = [p_ for p_ in m.params if p_ != "self"]
        hit = [p_ for p_ in prm if p_ in bound and A.norm(bound[p_]) == mem]
        if len(hit) != 1:
            return False
        fm = FA(ck, m)
        rets = [r for r in fm.returns() if fm.nodes(r)]
        if not rets:
            return False
        # the call is true only where a return hands out something truthy: each such return either returns a value that
        # establishes the fact, or is reached only on ways that have established it (guard-clause form)
        for r in rets:
            if r.value is None or (isinstance(r.value, ast.Constant) and not r.value.value):
                continue
            try:
                body = fm.expand(r.value)
            except AnalysisError:
                return False
            if _holds_same_memento(ck, cm, copy.deepcopy(body), True, hit[0], depth + 1):
                continue
            if not _reached_only_holding(ck, cm, fm, r, hit[0], "", depth + 1):
                return False
        return True
    return False


def _reached_only_holding(ck, cm, fa: FA, target, mem, layer_prefix, depth=0) -> bool:
    """every way to `target` takes a branch edge that establishes that the cache holds `mem` for its call (the literals of
    FA.conditions: nesting, guard clauses, negations, temporaries and conjunctions are normalised away); `layer_prefix`:
    how the cache is named in this function ('' inside the cache, 'self._memory_cache.' in the backend)"""
    try:
        conds = fa.conditions(target)
    except (AnalysisError, RecursionError):
        return False
    if not conds:
        return False
    memo = {}

    def lit_ok(t, p):
        if (t, p) not in memo:
            txt = t.replace(layer_prefix, "self.") if layer_prefix else t
            try:
                memo[(t, p)] = _holds_same_memento(ck, cm, ast.parse(txt, mode="eval").body, p, mem, depth)
            except SyntaxError:
                memo[(t, p)] = False
        return memo[(t, p)]
    return all(any(lit_ok(t, p) for (t, p) in c) for c in conds)


def check_cache_fill_only_for_held_memento(ck, cm: CacheModel, R):
    """read_result of the backend is handed a memento by its caller -- possibly one obtained before the call was forgotten
    or memoized again (data objects are never removed, so its result still loads).  Putting that into the cache would bring
    a forgotten call back (is_memoized / get_memento answer from the cache) or replace the current memento by a superseded
    one: the loaded result is put into the cache only where the cache has been found to hold that very memento."""
    rr = FA(ck, BACKEND_BASE + ".read_result")
    ck.need(len(rr.fi.params) >= 2, "StorageBackendBase.read_result(memento) signature changed")
    mem = rr.fi.params[1]
    _n, sites = _layer_application_nodes(ck, rr, "put", "_memory_cache", _no_cache)
    calls = list({id(c): c for c in [c for (c, _a, _k) in sites] + _field_calls(rr, "_memory_cache", "put")}.values())
    for c in calls:
        ok = _reached_only_holding(ck, cm, rr, c, mem, "self._memory_cache.")
        ck.ob(R, rr.key(None, "fill-only-held-memento"), ok,
              "the loaded result is cached only where the cache holds that very memento for the call" if ok else
              "read_result puts the result it loaded into the cache under whatever memento it was handed, without having established that the "
              "cache currently holds that memento for the call: reading through a memento obtained before the call was forgotten (or memoized "
              "again) makes the forgotten call memoized again / brings the superseded memento and value back", rr.where(c))


def _cache_key_canon(ck, cm, key_expr) -> str:
    """Canonical text of a cache key expression: calls of the cache's own key builders (`_cache_key_for_memento`,
    `_cache_key_for_fn`, via self / the class) are replaced by what they return, and string building is flattened,
    so a key is the same whether it is obtained through the helpers or written out in place."""
    import copy

    def inline(e, depth):
        class T(ast.NodeTransformer):
            def visit_Call(self, n_):
                self.generic_visit(n_)
                f = n_.func
                if depth < 4 and isinstance(f, ast.Attribute) and isinstance(f.value, ast.Name) and f.value.id in ("self", "cls", cm.cls.name) \
                        and f.attr in cm.cls.methods and f.attr.startswith("_cache_key"):
                    m = cm.cls.methods[f.attr]
                    rets = [s_ for s_ in A.all_stmts(m.node) if isinstance(s_, ast.Return) and s_.value is not None]
                    if len(rets) == 1:
                        try:
                            body = FA(ck, m).expand(rets[0].value)
                        except AnalysisError:
                            body = copy.deepcopy(rets[0].value)
                        bound = _bind(n_, m.params)

                        class S(ast.NodeTransformer):
                            def visit_Name(self, x_):
                                return copy.deepcopy(bound[x_.id]) if x_.id in bound and isinstance(x_.ctx, ast.Load) else x_

                        return inline(S().visit(body), depth + 1)
                return n_

        return T().visit(e)

    e = inline(copy.deepcopy(key_expr), 0)
    parts = A.str_parts(e)
    if parts and len(parts) > 1:
        out = None
        for (k, v) in parts:
            node = ast.Constant(value=v) if k == "lit" else v
            out = node if out is None else ast.BinOp(left=out, op=ast.Add(), right=node)
        e = out
    return A.norm(e)


def check_metadata_single_form(ck, R):
    """Custom metadata for a key lives in ONE of two forms (a plain file, or a marker that says the value is beside
    the data object) and the reader probes the plain form first: a writer that leaves the other form behind makes
    a later read return the superseded value.  write_metadata removes the key's other form: decided for both values of
    the form flag -- under each, every way to the normal exit passes a delete of the key built with the OPPOSITE flag
    (a by-pass only where that key was found not to exist)."""
    from .effects import Assume, param_truth_atom
    fa = FA(ck, MDS + ".write_metadata")
    mkf = ck.repo.try_func(MDS + "._get_metadata_key")
    mkp = mkf.params if mkf is not None else ["fn_with_arg_hash", "key", "stored_with_data"]
    flag = fa.fi.params[4] if len(fa.fi.params) > 4 else "stored_with_data"
    dels = [c for c in fa.calls("delete_all_versions") + fa.calls("delete_nonversioned_key")]
    ok = bool(dels)
    for v in (True, False):
        asm = Assume(fa, param_truth_atom(flag, v))
        good = []
        for c in dels:
            key_ = A.arg_or_kw(c, 0, "key")
            if key_ is None:
                continue
            for i in asm.may_run(c):
                forms = []
                for (leaf, n) in asm.cases(key_, i):
                    e = leaf
                    try:
                        e = fa.expand(leaf, n)
                    except AnalysisError:
                        pass
                    inner = [x for x in ast.walk(e) if isinstance(x, ast.Call) and A.call_attr(x) == "_get_metadata_key"]
                    if len(inner) != 1:
                        forms.append(None)
                        continue
                    form = _bind(inner[0], mkp).get(mkp[-1])
                    forms.append(asm.ev(form, n) if form is not None else None)
                if forms and all(f is (not v) for f in forms):
                    good.append(i)
        absent = branch_filter(fa, lambda t, p: (not p) and "exists_nonversioned(" in t)
        okv = bool(good) and fa.cfg.exit not in fa.cfg.reach([fa.cfg.entry], removed=good, edge_ok=both(asm.edge_ok, absent))
        ok = ok and okv
    ck.ob(R, fa.key(None, "other-form-removed"), ok, "writing one form of a metadata key removes the other form" if ok else
          "write_metadata does not remove the key's other form (plain file / with-data marker): write_metadata(k, v1) followed by "
          "write_metadata(k, v2, store_with_content_key=...) reads back v1 on the filesystem backend, v2 on the memory backend", fa.where())


def check_delete_enumerates_versions(ck, R):
    """Deleting a key of the filesystem data source removes EVERY version of it: a key written twice has
    two version objects and only the newest is named by the link, so resolving the link finds one of them.
    The non-recursive delete must enumerate the key's versions directory (glob / iterdir under
    _get_versions_directory(key)) and unlink what it finds; the link goes on every path."""
    fa = FA(ck, FSDS + "._delete_all_versions_for_key")  # (the host, when the helper was inlined into delete_all_versions)
    vlits = _versions_dir_literals(ck)
    loops = _version_scan_loops(fa, vlits)
    # a path may skip the enumeration only where the key does not exist or the whole subtree goes (recursive delete)
    skip = branch_filter(fa, lambda t, p: (not p and ".exists()" in t) or (p and t == "recursive"))
    ok = bool(loops) and any(fa.cfg.exit not in fa.cfg.reach([fa.cfg.entry], removed=fa.nodes(lp), edge_ok=skip) for lp in loops)
    ck.ob(R, fa.key(None, "all-versions-enumerated"), ok,
          "every version object under the key's versions directory is unlinked" if ok else
          "_delete_all_versions_for_key does not enumerate the versions directory on every path (it deletes what the link resolves to, at most): "
          "superseded versions of a key written twice stay behind, the function directory is never pruned and a forgotten function stays listed", fa.where())
    # ... and the enumeration is of EVERY version directory: `output` never removes the previous version of a key, the link
    # names the newest one only, so which version objects go must not be narrowed to one directory (a value in the place of the
    # wildcard, on any branch) nor filtered by what the link says
    cls = ck.repo.cls(FSDS)
    scans = [VersionScan(ck, fa, lp, vlits, cls) for lp in loops]
    top = []
    for sc in scans:
        outer = [o for o in scans if o is not sc and fa.inside(sc.lp, o.lp)]
        if outer and (sc.complete or sc.why == "sub-scan"):
            continue        # a scan of one version directory that an enclosing scan found
        top.append(sc)
        why = sc.why if sc.why != "sub-scan" else "`%s` scans one directory, not the key's versions directory" % A.short(sc.lp.iter, 50)
        if sc.complete:
            # no test inside the loop decides by the link's content which of the enumerated objects is unlinked
            for t in [n for n in fa.cfg.nodes if n.kind == "test" and n.ast is not None and fa.inside(n.ast, sc.lp) and n.id in fa.cfg.reachable_nodes()]:
                if set(fa.df.deps(t.ast, t.id)) & set(_LINK_CONTENT):
                    why = "inside the scan `%s` decides by what the link says which objects are unlinked" % A.short(t.ast, 50)
        okc = sc.complete and not why
        ck.ob(R, fa.key(sc.lp, "every-version-directory"), okc,
              "the scan visits every version directory of the key" if okc else
              "the delete scan does not visit every version directory of the key (%s): a key written twice has two version objects and the link names "
              "only the newest, so the superseded one stays behind, the function's directory is never pruned and a function with no call left "
              "stays listed" % (why or "not a complete enumeration"), fa.where(sc.lp))
    # ... and one of the scans that every path passes selects the object itself (file name = the key's base name, no further
    # literal), not only what is stored beside it
    if ok and top and all(sc.complete for sc in top):
        def on_every_path(sc):
            return fa.cfg.exit not in fa.cfg.reach([fa.cfg.entry], removed=fa.nodes(sc.lp), edge_ok=skip)
        def selects_object(sc):
            return sc.names is None or (len(sc.names) == 1 and sc.names[0][0] == "expr")
        oko = any(on_every_path(sc) and selects_object(sc) for sc in top)
        ck.ob(R, fa.key(None, "objects-enumerated"), oko, "the version objects themselves are among what the scans select" if oko else
              "the delete scans select files stored beside the version objects only (every pattern carries a literal after the key's base name): "
              "the objects of a deleted key stay behind", fa.where())
    dv = FA(ck, FSDS + ".delete_all_versions")
    # what removes the link, by what it does: an unlink of the path the link builder returns, here or in a method of the
    # data source that does so on every path (whatever that method is called and however the helpers are merged or split)
    links = _link_removal_sites(ck, dv, SchemePaths(ck))
    # once the key was found to exist, every path to the exit deletes the link (directly or in the per-key helper): the only
    # edges that may by-pass the deletion are those that say "does not exist" (guard clause or nested, either polarity)
    # (a local that only ever holds an existence answer -- `present = a.exists()` ... `if not present: present = b.exists()` -- says the same)
    flags = {}
    for st in dv.stmts(ast.Assign):
        for t in st.targets:
            if isinstance(t, ast.Name):
                flags.setdefault(t.id, []).append(".exists()" in A.norm(st.value))
    flags = {n_ for n_, vs in flags.items() if all(vs)}
    okl = bool(links) and dv.cfg.exit not in dv.cfg.reach([dv.cfg.entry], removed=dv.nodes_all(links),
                                                            edge_ok=branch_filter(dv, lambda t, p: not p and (".exists()" in t or t in flags)))
    ck.ob(R, dv.key(None, "link-removed"), okl, "the link of a deleted key is removed on every path" if okl else
          "delete_all_versions can finish without removing the key's link", dv.where())


def _versions_dir_literals(ck):
    """The directory-name literal(s) under which versioned objects are written (`.versions`), from the writer's path builder."""
    pv = FA(ck, FSDS + "._get_path_versioned")
    return _dot_components(pv)


def _dot_components(fa: FA):
    """Literal path components starting with '.' in what `fa` returns: whole constant arguments of joinpath / os.path.join
    (locals expanded); when the path is not built by such a call, every '.'-literal of the returned expression."""
    comps, lits = set(), set()
    for r in fa.returns():
        if r.value is None:
            continue
        e = safe_expand(fa, r.value, r)
        for c in ast.walk(e):
            parts = []
            if isinstance(c, ast.Call) and A.call_attr(c) in ("joinpath", "join", "Path", "PurePath"):
                # whole components, `*(a, '.x', b)` spread out
                for a in c.args:
                    parts += list(a.value.elts) if isinstance(a, ast.Starred) and isinstance(a.value, (ast.Tuple, ast.List)) else [a]
            elif isinstance(c, ast.BinOp) and isinstance(c.op, ast.Div):
                parts = [c.left, c.right]     # pathlib: base / 'dir' / name
            comps |= {a.value for a in parts if isinstance(a, ast.Constant) and isinstance(a.value, str) and a.value.startswith(".")}
        lits |= {s_ for s_ in A.strings_in(r.value) if s_.startswith(".")}
    return comps or lits


def _version_scan_loops(fa: FA, vlits):
    """Loops that enumerate a key's versions directory (glob / iterdir / listdir / scandir below a path built with the
    versions-directory name or by _get_versions_directory) and unlink what they find."""
    loops = []
    for lp in fa.stmts(ast.For):
        d = fa.deps(lp.iter)
        under_versions = "call:_get_versions_directory" in d or any(("const:%r" % v) in d for v in vlits)
        if under_versions and ("call:glob" in d or "call:iterdir" in d or "call:listdir" in d or "call:scandir" in d):
            if any(A.call_attr(c) in ("unlink", "remove") for c in A.calls_in(lp)):
                loops.append(lp)
    return loops


# what only the link file can say: the link names ONE version (the newest) of the key
_LINK_CONTENT = ("call:_read_non_versioned_link", "call:input_nonversioned", "call:read", "call:read_text", "call:readline", "call:readlines", "call:readlink")
_SEQ_WRAPPERS = ("list", "sorted", "tuple", "iter", "set", "reversed")


def _alternatives(fa: FA, e, at, cap=24):
    """Every expression `e` (evaluated at CFG node `at`) may stand for: a local with ONE reaching plain assignment is
    replaced by its value (as FA.expand does), a local with SEVERAL (a value chosen on different branches) gives one
    alternative per assignment, a conditional expression one per arm.  -> list of expressions (at most `cap`)."""
    import copy

    def replace(tree, site, new):
        if tree is site:
            return copy.deepcopy(new)
        idx = [i for i, y in enumerate(ast.walk(tree)) if y is site][0]
        t2 = copy.deepcopy(tree)
        site2 = list(ast.walk(t2))[idx]
        new2 = copy.deepcopy(new)

        class T(ast.NodeTransformer):
            def visit(self, n_):
                return new2 if n_ is site2 else self.generic_visit(n_)

        return T().visit(t2)

    def alts(tree, at_, depth, stack):
        bound = set()
        for x in ast.walk(tree):
            if isinstance(x, ast.comprehension):
                bound |= {n.id for n in ast.walk(x.target) if isinstance(n, ast.Name)}
            if isinstance(x, ast.Lambda):
                bound |= {a.arg for a in x.args.args + x.args.kwonlyargs + x.args.posonlyargs}
        site = vals = None
        if depth > 0:
            for x in ast.walk(tree):
                if getattr(x, "_alt_done", False):
                    continue
                if isinstance(x, ast.IfExp):
                    site, vals = x, [(x.body, at_, None), (x.orelse, at_, None)]
                    break
                if isinstance(x, ast.Name) and isinstance(x.ctx, ast.Load) and x.id not in bound:
                    ds = [d for d in fa.df.reaching(at_, x.id)]
                    if ds and all(d.kind in ("assign", "aug") and d.value is not None and d.node >= 0 and (d.node, d.name) not in stack for d in ds):
                        # `x += e` stands for x = <x before> + e (evaluated where it is written)
                        site, vals = x, [((d.value if d.kind == "assign" else
                                           ast.BinOp(left=ast.Name(id=x.id, ctx=ast.Load()), op=copy.deepcopy(d.stmt.op), right=d.value)),
                                          d.node, (d.node, d.name)) for d in ds]
                        break
                    x._alt_done = True
        if site is None:
            return [tree]
        out = []
        for (v, v_at, key) in vals:
            for s_ in alts(copy.deepcopy(v), v_at, depth - 1, stack + ((key,) if key else ())):
                if v_at != at_ or key is not None:
                    for y in ast.walk(s_):
                        y._alt_done = True     # evaluated where it was assigned: final
                out += alts(replace(tree, site, s_), at_, depth - 1, stack)
                if len(out) >= cap:
                    return out[:cap]
        return out

    return alts(copy.deepcopy(e), at, 16, ())


def _pattern_parts(p):
    """flat parts of a glob pattern / file name, `<fmt>.format(..)` with a built (non-literal) format string included"""
    parts = A.str_parts(p)
    if parts is None and isinstance(p, ast.Call) and A.call_attr(p) == "format" and isinstance(p.func, ast.Attribute):
        head = A.str_parts(p.func.value)
        if head is not None:
            # the fields of the literal pieces are filled from the arguments in order
            out, k = [], 0
            for (kind, v) in head:
                if kind != "lit":
                    out.append((kind, v))
                    continue
                pieces = v.split("{}")
                for i, pc in enumerate(pieces):
                    if pc:
                        out.append(("lit", pc))
                    if i < len(pieces) - 1:
                        if k >= len(p.args):
                            return None
                        sub = A.str_parts(p.args[k])
                        out += sub if sub is not None else [("expr", p.args[k])]
                        k += 1
            parts = A._merge(out)
    return parts


class VersionScan:
    """How a loop of the deleter enumerates the version objects of a key.

    `complete`  every version directory of the key's versions directory is visited: `<versions dir>.glob('*/...')`,
                `.iterdir()`, `os.listdir / os.scandir(<versions dir>)`, `glob.glob(<versions dir>/*/...)`, through
                list()/sorted() and comprehensions that filter on nothing the link says
    `why`       (when not complete) what narrows it
    `names`     for a glob: the parts of the pattern after the version component (what file names it selects)
    `nested`    the loop runs over something found by an enclosing complete scan (a sub-scan of one version directory)"""

    def __init__(self, ck, fa: FA, lp, vlits, cls):
        self.lp, self.complete, self.why, self.names, self.nested = lp, False, "", None, False
        ids = fa.nodes(lp)
        if not ids:
            self.why = "unreachable"
            return
        verdicts = []
        for alt in _alternatives(fa, lp.iter, ids[0]):
            verdicts.append(self._classify(ck, fa, cls, alt, vlits, ids[0]))
        bad = [v for v in verdicts if v[0] is not True]
        self.complete = bool(verdicts) and not bad
        self.why = bad[0][1] if bad else ""
        nm = [v[2] for v in verdicts if v[2] is not None]
        self.names = nm[0] if nm and len(nm) == len(verdicts) else None

    def _is_vdir(self, ck, cls, e, vlits) -> bool:
        e = _strip_path_wrappers(e)
        x = _strip_path_wrappers(_inline_own_builders(ck, cls, e))
        last = None
        if isinstance(x, ast.Call) and A.call_attr(x) in ("joinpath", "join") and x.args:
            last = x.args[-1]
        elif isinstance(x, ast.BinOp) and isinstance(x.op, ast.Div):
            last = x.right
        return isinstance(last, ast.Constant) and last.value in vlits

    def _classify(self, ck, fa, cls, e, vlits, at):
        """-> (True | False, why, name parts | None)"""
        while isinstance(e, ast.Call) and isinstance(e.func, ast.Name) and e.func.id in _SEQ_WRAPPERS and e.args:
            e = e.args[0]
        if isinstance(e, (ast.ListComp, ast.GeneratorExp, ast.SetComp)):
            if len(e.generators) != 1:
                return (False, "`%s` is not a plain enumeration" % A.short(e, 50), None)
            g = e.generators[0]
            for c_ in g.ifs:
                try:
                    d = fa.df.deps(c_, at, None, {n.id: g.iter for n in ast.walk(g.target) if isinstance(n, ast.Name)})
                except Exception:  # noqa
                    d = set()
                if set(d) & set(_LINK_CONTENT):
                    return (False, "the scan keeps only entries chosen by what the link says (`%s`)" % A.short(c_, 50), None)
            return self._classify(ck, fa, cls, g.iter, vlits, at)
        if not isinstance(e, ast.Call):
            return (False, "`%s` is not an enumeration of the versions directory" % A.short(e, 50), None)
        nm, d = A.call_attr(e), A.call_dotted(e) or ""
        if nm in ("iterdir",) and isinstance(e.func, ast.Attribute) and self._is_vdir(ck, cls, e.func.value, vlits):
            return (True, "", None)
        if d in ("os.listdir", "os.scandir") and e.args and self._is_vdir(ck, cls, e.args[0], vlits):
            return (True, "", None)
        if nm in ("glob", "rglob", "iglob") and e.args:
            if isinstance(e.func, ast.Attribute) and self._is_vdir(ck, cls, e.func.value, vlits):
                if nm == "rglob":
                    return (True, "", _pattern_parts(e.args[0]))
                return self._wild(_pattern_parts(e.args[0]), e.args[0])
            # glob.glob(<versions dir>/*/...): the module function, under whatever name it was imported
            p = e.args[0]
            if isinstance(p, ast.Call) and A.call_attr(p) == "join" and "path" in (A.call_dotted(p) or ""):
                for i, a in enumerate(p.args):
                    if self._is_vdir(ck, cls, a, vlits):
                        rest = p.args[i + 1:]
                        parts = []
                        for j, r_ in enumerate(rest):
                            sp = A.str_parts(r_)
                            parts += (sp if sp is not None else [("expr", r_)]) + ([("lit", "/")] if j < len(rest) - 1 else [])
                        return self._wild(A._merge(parts), p)
            parts = _pattern_parts(p)
            if parts:
                for i, (k, v) in enumerate(parts):
                    if k == "expr" and self._is_vdir(ck, cls, v, vlits) and i + 1 < len(parts) and parts[i + 1][0] == "lit" and parts[i + 1][1][:1] in ("/", "\\"):
                        rest = [("lit", parts[i + 1][1][1:])] + parts[i + 2:]
                        return self._wild(A._merge(rest), p)
            if isinstance(e.func, ast.Attribute) and not isinstance(e.func.value, ast.Call) and (A.call_dotted(e) or "").split(".")[0] not in ("glob", "_glob"):
                return (None, "sub-scan", None)
            return (False, "`%s` is not an enumeration of the versions directory" % A.short(e, 50), None)
        return (False, "`%s` is not an enumeration of the versions directory" % A.short(e, 50), None)

    @staticmethod
    def _wild(parts, node):
        """the first component of the pattern (the version) is the wildcard"""
        if not parts:
            return (False, "the scan pattern `%s` cannot be read" % A.short(node, 50), None)
        (k, v) = parts[0]
        if k != "lit":
            return (False, "the version component of the scan pattern is `%s`, a value, not the wildcard" % A.short(v, 40), None)
        comp = v.replace("\\", "/").split("/")[0]
        if comp not in ("*", "**"):
            return (False, "the version component of the scan pattern is %r, not the wildcard" % comp, None)
        rest = v.replace("\\", "/").split("/", 1)[1] if "/" in v.replace("\\", "/") else ""
        names = ([("lit", rest)] if rest else []) + list(parts[1:])
        return (True, "", names)


def _mentions_table(fa: FA, e, tb, at=None) -> bool:
    """does the container expression `e` denote (something taken out of) `self.<tb>`: named directly, through a
    temporary / alias, or through the variable of a loop over the tables"""
    if any(self_attr(x, tb) for x in ast.walk(e)):
        return True
    try:
        return bool(fa.nodes(at if at is not None else e)) and ("attr:self." + tb) in fa.deps(e)
    except AnalysisError:
        return False


def _table_removal_nodes(fa: FA, tb):
    """CFG nodes of `fa` that remove one key from `self.<tb>` (or from the inner table taken out of it): `del X[k]`,
    `X.pop(k[, d])`.  A removal that sits in a loop over a non-empty literal sequence (`for t in (self.a, self.b): t.pop(k, None)`)
    and is passed by every iteration makes the loop as a whole a removal (its head stands for it)."""
    sites = []
    for st in fa.stmts(ast.Delete):
        if any(isinstance(t, ast.Subscript) and _mentions_table(fa, t.value, tb, st) for t in st.targets):
            sites.append(st)
    for c in fa.calls("pop"):
        if c.args and fa.unconditional(c) and _mentions_table(fa, A.call_recv(c), tb, c):
            sites.append(c)
    out = []
    for s in sites:
        ids = fa.nodes(s)
        out += ids
        lp = fa.enclosing(s, ast.For)
        if lp is None or not ids:
            continue
        it = safe_expand(fa, lp.iter, lp)
        if not (isinstance(it, (ast.Tuple, ast.List)) and it.elts and not any(isinstance(x, ast.Starred) for x in it.elts)):
            continue
        for h in fa.nodes(lp):
            # one iteration: from the head into the body, no way back to the head (or out of the loop) that misses the removal
            r = fa.cfg.reach([h], removed=ids, edge_ok=lambda s_, d_, l_, h=h: not (s_ == h and l_ == "F"), include_start=False)
            inside = all(i != h and (fa.cfg.node(i).ast is None and i != fa.cfg.exit or (fa.cfg.node(i).ast is not None and fa.inside(fa.cfg.node(i).ast, lp))) for i in r)
            if inside:
                out.append(h)
    return out


def _covering_tables(ck, cls, tb, tables):
    """Tables U of `cls` such that every method which enters a key into self.<tb> (item store, defaultdict look-up,
    update / setdefault) also enters one into self.<U> on every path through that site: an entry in <tb> then implies
    an entry in U.  Decided from the field-mutation sites of the effect summaries."""
    def base(fld):
        return fld.split(":")[0].replace("[]", "")
    def inserts(fi, t):
        out = []
        for (owner, fld, n) in ck.cg.field_mut_sites.get(fi.qual, []):
            if base(fld) != t or fld.endswith(":delitem") or fld.endswith(":assign"):
                continue
            if isinstance(n, ast.Call) and A.call_attr(n) not in ("update", "setdefault", "__setitem__"):
                continue
            out.append(n)
        return out
    cover = []
    for u in tables:
        if u == tb:
            continue
        ok, seen = True, False
        for name, m in (cls.methods.items() if cls is not None else []):
            if name == "__init__":
                continue
            mine = inserts(m, tb)
            if not mine:
                continue
            seen = True
            fa = FA(ck, m)
            if not every_path_through(fa, fa.nodes_all(mine), fa.nodes_all(inserts(m, u))):
                ok = False
        if ok and seen:
            cover.append(u)
    return cover


def _says_absent(text, positive, tb, others) -> bool:
    """Does the branch literal (text, polarity) say that the call has no entry in `self.<tb>`?  `k in X` false,
    `X` falsy (an empty / missing inner table), `X is None` true -- where X is taken out of self.<tb> and out of no other table."""
    import re
    if not re.search(r"\bself\.%s\b" % re.escape(tb), text) or any(re.search(r"\bself\.%s\b" % re.escape(o), text) for o in others):
        return False
    try:
        e = ast.parse(text, mode="eval").body
    except SyntaxError:
        return False
    def of_table(x):
        return any(self_attr(n, tb) for n in ast.walk(x))
    if isinstance(e, ast.Compare) and len(e.ops) == 1:
        if isinstance(e.ops[0], ast.In):
            return (not positive) and of_table(e.comparators[0])
        if isinstance(e.ops[0], ast.Is) and A.is_none(e.comparators[0]):
            return positive and of_table(e.left)
        return False
    if isinstance(e, (ast.Name, ast.Attribute, ast.Subscript)) or (isinstance(e, ast.Call) and A.call_attr(e) == "get"):
        return (not positive) and of_table(e)
    return False


def _bypass_site(fa: FA, removed, edge_ok):
    """the last statement of a witness path entry -> exit that avoids `removed` (for the report), or None"""
    p = fa.cfg.path(fa.cfg.entry, fa.cfg.exit, removed=removed, edge_ok=edge_ok)
    for i in reversed(p or []):
        if fa.cfg.node(i).ast is not None:
            return fa.cfg.node(i).ast
    return None


def check_forget_scope(ck, cm: CacheModel):
    R = "C05.R2"
    ck.rule(R, "forget scope: prefix selections end in the key separator; the metadata source deletes exactly the "
               "function directory / the call's file prefix; every backend forget is mirrored in the cache and the "
               "metadata source on every path; the memory backend removes from all its tables", 12)
    # (a) cache: startswith(prefix) with prefix = qualified_name + separator of the key builder
    kb = FA(ck, "storage_base.MemoryCache._cache_key_for_fn")
    ret = kb.one(kb.returns(), "return")
    seps = [s for s in A.strings_in(ret.value)]
    kb.ck.need(len(seps) == 1, "cache key builder: cannot identify the separator constant")
    sep = seps[0]
    ff = FA(ck, "storage_base.MemoryCache.forget_function")
    sw = _prefix_tests(ff, ck)
    if sw:
        _forget_by_scan(ck, R, cm, ff, sw, sep)
    else:
        _forget_by_index(ck, R, cm, ff)
    # (b) metadata source
    f1 = FA(ck, MDS + ".forget_function")
    dels = f1.some(f1.calls("delete_all_versions"), "delete_all_versions call")
    own1 = [p_ for p_ in f1.fi.params if p_ != "self"]
    for c in dels:
        key_ = A.arg_or_kw(c, 0, "key")
        rec_ = A.arg_or_kw(c, 1, "recursive")
        # the function's directory m/<qualified name> of the function asked about: `_get_function_path(fn)` or the same
        # path written out in place
        kparts = PathModel(ck).flatten(f1, key_, c) if key_ is not None else []
        ok = bool(own1) and kparts == [("fnpath", own1[0])] and rec_ is not None and _xt(f1, rec_, c) == "True"
        ck.ob(R, f1.key(c), ok, "deletes exactly the function's directory, recursively" if ok else
              "forget_function does not delete exactly the directory returned by _get_function_path", f1.where(c))
    f2 = FA(ck, MDS + ".forget_call")
    lk = f2.one(f2.calls("list_keys_nonversioned"), "list_keys_nonversioned call")
    lkp = ck.repo.try_func("storage_base.DataSource.list_keys_nonversioned")
    bl = _bind(lk, lkp.params if lkp is not None else ["self", "directory", "file_prefix", "recursive", "limit", "endswith"])
    d_dir, d_pre, rec = bl.get("directory"), bl.get("file_prefix"), bl.get("recursive")
    pmod = PathModel(ck)
    own = [p_ for p_ in f2.fi.params if p_ != "self"]
    ck.need(own, "forget_call takes no call argument")

    def inner(e, fn_name):
        """the argument of os.path.<fn_name>(...) inside `e` (locals expanded), or None; `d, b = os.path.split(P)` counts as
        d = dirname(P), b = basename(P)"""
        if e is None:
            return None
        ids = f2.nodes(lk)
        x = f2.expand(e, ids[0]) if ids else e

        def whole(part) -> bool:
            """the argument IS that part of the path (possibly wrapped: DataSourceKey(..), str(..), cast(T, ..)), not something
            computed from it (a slice of the basename selects more than the call)"""
            y = x
            while isinstance(y, ast.Call) and not y.keywords and y is not part and ((len(y.args) == 1 and A.call_attr(y) in ("str", "DataSourceKey", "fspath")) or (len(y.args) == 2 and A.call_attr(y) == "cast")):
                y = y.args[-1]
            return y is part
        hits = [c_ for c_ in ast.walk(x) if isinstance(c_, ast.Call) and A.call_attr(c_) == fn_name and len(c_.args) == 1]
        if len(hits) == 1:
            return hits[0].args[0] if whole(hits[0]) else None
        # pathlib: PurePosixPath(P).parent / .name
        attr = "parent" if fn_name == "dirname" else "name"
        ph = [a_ for a_ in ast.walk(x) if isinstance(a_, ast.Attribute) and a_.attr == attr and isinstance(a_.value, ast.Call)
              and A.call_attr(a_.value) in ("PurePosixPath", "PurePath", "Path", "PosixPath") and len(a_.value.args) == 1 and not a_.value.keywords]
        if len(ph) == 1:
            return ph[0].value.args[0] if whole(ph[0]) else None
        for nm in [n_ for n_ in ast.walk(x) if isinstance(n_, ast.Name) and whole(n_)]:
            for d_ in (f2.df.reaching(ids[0], nm.id) if ids else []):
                st_ = d_.stmt if d_.stmt is not None else (f2.cfg.node(d_.node).ast if d_.node >= 0 else None)
                if isinstance(st_, ast.Assign) and len(st_.targets) == 1 and isinstance(st_.targets[0], ast.Tuple) and len(st_.targets[0].elts) == 2 \
                        and isinstance(st_.value, ast.Call) and A.call_attr(st_.value) == "split" and "path" in (A.call_dotted(st_.value) or "") and len(st_.value.args) == 1:
                    idx = [A.norm(t_) for t_ in st_.targets[0].elts].index(nm.id) if nm.id in [A.norm(t_) for t_ in st_.targets[0].elts] else None
                    if idx == (0 if fn_name == "dirname" else 1):
                        return safe_expand(f2, st_.value.args[0], st_)
                # `d, b = P.rsplit('/', 1)`: the same two parts for a path that has a '/' (a call path always has)
                if isinstance(st_, ast.Assign) and len(st_.targets) == 1 and isinstance(st_.targets[0], ast.Tuple) and len(st_.targets[0].elts) == 2 \
                        and isinstance(st_.value, ast.Call) and A.call_attr(st_.value) == "rsplit" and [A.norm(a_) for a_ in st_.value.args] == ["'/'", "1"]:
                    names_ = [A.norm(t_) for t_ in st_.targets[0].elts]
                    if nm.id in names_ and names_.index(nm.id) == (0 if fn_name == "dirname" else 1):
                        return safe_expand(f2, A.call_recv(st_.value), st_)
        return None

    dn, bn = inner(d_dir, "dirname"), inner(d_pre, "basename")
    cps = []
    if dn is not None and bn is not None:
        # dirname(P) / basename(P) of the call path P = <function dir>/<arg hash>
        pd_, pb_ = pmod._post(pmod._flat(dn)), pmod._post(pmod._flat(bn))
        cps = [PathModel.call_path(pd_), PathModel.call_path(pb_)]
        sel_ok = all(cp is not None and not cp[2] for cp in cps) and cps[0][:2] == cps[1][:2]
    else:
        # the same selection written directly: the function's directory and the argument hash as the prefix
        pd_ = pmod.flatten(f2, d_dir, lk) if d_dir is not None else []
        pb_ = pmod.flatten(f2, d_pre, lk) if d_pre is not None else []
        sel_ok = len(pd_) == 1 and pd_[0][0] == "fnpath" and len(pb_) == 1 and pb_[0][0] == "expr"
        cps = [(pd_[0][1], pb_[0][1], [])] if sel_ok else []
    ok = sel_ok and (rec is None or _xt(f2, rec, lk) == "False")
    ck.ob(R, f2.key(lk), ok, "selects dirname/basename of the call's path, non-recursively" if ok else
          "forget_call does not select exactly <function dir>/<arg hash>* (directory/file_prefix/recursive changed)", f2.where(lk))
    okp = bool(cps) and all(cp is not None and cp[0] == own[0] + ".fn_reference" and cp[1] == own[0] + ".arg_hash" for cp in cps)
    ck.ob(R, f2.key(None, "path-args"), okp, "call path built from (fn_reference, arg_hash)" if okp else
          "forget_call's path is not built from the call's fn_reference and arg_hash", f2.where())
    dl = f2.some(f2.calls("delete_all_versions"), "delete_all_versions call")
    for c in dl:
        loop = f2.enclosing(c, ast.For)
        rec_ = A.arg_or_kw(c, 1, "recursive")
        key_ = A.arg_or_kw(c, 0, "key")
        # the loop runs over what the selection listed (directly, through a temporary, sorted / enumerated) and deletes each listed key
        elem = None
        if loop is not None:
            it_, tg_ = loop.iter, loop.target
            while isinstance(it_, ast.Call) and isinstance(it_.func, ast.Name) and it_.func.id in ("enumerate", "sorted", "list", "tuple", "reversed", "iter") and it_.args:
                if it_.func.id == "enumerate":
                    tg_ = tg_.elts[1] if isinstance(tg_, ast.Tuple) and len(tg_.elts) == 2 else None
                it_ = it_.args[0]
            elem = tg_.id if isinstance(tg_, ast.Name) else None
        ok = loop is not None and (lk in list(ast.walk(loop.iter)) or "call:list_keys_nonversioned" in f2.deps(loop.iter)) and elem is not None \
            and key_ is not None and _xt(f2, key_, c) == elem and rec_ is not None and _xt(f2, rec_, c) == "False"
        ck.ob(R, f2.key(c), ok, "each selected key is deleted, non-recursively" if ok else
              "forget_call does not delete exactly the selected keys (non-recursively)", f2.where(c))
    f3 = FA(ck, MDS + ".forget_everything")
    de = f3.some(f3.calls("delete_all_versions"), "delete_all_versions call")
    ok = any(A.arg_or_kw(c, 1, "recursive") is not None and _xt(f3, A.arg_or_kw(c, 1, "recursive"), c) == "True" and A.arg_or_kw(c, 0, "key") is not None
             and A.strings_in(safe_expand(f3, A.arg_or_kw(c, 0, "key"), c)) == [""] for c in de)
    ck.ob(R, f3.key(None), ok, "forget_everything deletes the root recursively" if ok else
          "forget_everything does not delete the whole metadata root", f3.where())
    # (c) backend base mirrors into cache and metadata source
    for name in ("forget_call", "forget_function", "forget_everything"):
        # the statements that run when the method is called (a new decorator's wrapper applied, a body that only delegates
        # to a new helper replaced by the helper's); the operation is applied to a layer by whatever dispatches it: a plain
        # call, a bound method, getattr(layer, name), operator.methodcaller(name, ..), a loop over the layers
        fa = FA(ck, effective_function(ck, ck.fn(BACKEND_BASE + "." + name)))
        mdn, md = _layer_application_nodes(ck, fa, name, "_metadata_source", None)
        # (a branch taken because the metadata source itself is missing has nothing to forget in: the loop over the layers
        # written out tests each layer for None before applying the operation to it)
        def _layer_present(a, _b, l, fa=fa):
            nd = fa.cfg.node(a)
            if nd.kind == "test" and l in ("T", "F") and isinstance(nd.ast, ast.Compare):
                (txt, pol) = fa._literal(nd.ast, a, l == "T")
                if pol and txt == "self._metadata_source is None":
                    return False
            return True
        okm = bool(mdn) and fa.cfg.must_pass(mdn, fa.cfg.exit, edge_ok=_layer_present)
        ck.ob(R, fa.key(None, "metadata-source"), okm, "metadata source %s on every path" % name if okm else
              "%s does not reach self._metadata_source.%s on every normal path" % (name, name), fa.where())
        no_cache = _through_properties(ck, fa.fi.cls, _no_cache)
        ccn, cc = _layer_application_nodes(ck, fa, name, "_memory_cache", no_cache)
        # a path may skip the cache only on a branch edge that says there is no cache
        okc = bool(ccn) and fa.cfg.exit not in fa.cfg.reach([fa.cfg.entry], removed=ccn, edge_ok=branch_filter(fa, no_cache))
        ck.ob(R, fa.key(None, "cache"), okc, "cache %s whenever a cache exists" % name if okc else
              "%s can finish without self._memory_cache.%s although a cache exists: forgotten entries stay served from memory" % (name, name), fa.where())
        _check_cache_let_go_first(ck, R, fa, name)
        # arguments forwarded unchanged
        seen_sites = set()
        for (c, args_, kws_) in md + cc:
            if id(c) in seen_sites:
                continue
            seen_sites.add(id(c))
            params = [p for p in fa.fi.params if p != "self"]
            okA = [_xt(fa, a, c) for a in args_] + [_xt(fa, k.value, c) for k in kws_] == params
            ck.ob(R, fa.key(c, "args"), okA, "scope argument forwarded unchanged" if okA else
                  "the scope argument is not forwarded unchanged", fa.where(c))
    # (d) memory backend tables
    fc = FA(ck, MEMBACK + ".forget_call")
    tables = ("mementos", "result", "metadata")
    found = set()
    for st in fc.stmts(ast.Delete):
        for t in st.targets:
            if isinstance(t, ast.Subscript):
                deps = fc.deps(t.value)
                for tb in tables:
                    if "attr:self." + tb in deps:
                        found.add(tb)
    for c in fc.calls("pop"):
        deps = fc.deps(A.call_recv(c))
        for tb in tables:
            if "attr:self." + tb in deps:
                found.add(tb)
    ck.ob(R, fc.key(None, "tables"), found == set(tables), "forget_call removes from mementos, result and metadata" if found == set(tables) else
          "forget_call does not remove from %s" % sorted(set(tables) - found), fc.where())
    # ... and from each of them on EVERY path: the three tables are filled independently (custom metadata can be written
    # for a call that has no memento, a result is stored before its memento), so what one table holds says nothing about
    # the others.  A way to the normal exit may by-pass the removal from table T only on a branch edge that says the
    # call's entry is absent from T itself.
    for tb in tables:
        if tb not in found:
            continue
        rem = _table_removal_nodes(fc, tb)
        # a table U "covers" T when every method that enters a key into T enters it into U on the same paths: then a call
        # absent from U is absent from T as well, and such a test excuses the by-pass too
        cover = _covering_tables(ck, fc.fi.cls, tb, tables)
        others = [o for o in tables if o != tb and o not in cover]
        absent = branch_filter(fc, lambda t, p, tb=tb, others=others, cover=cover: any(_says_absent(t, p, x, others) for x in [tb] + cover))
        okp = bool(rem) and fc.cfg.exit not in fc.cfg.reach([fc.cfg.entry], removed=rem, edge_ok=absent)
        ck.ob(R, fc.key(None, "every-path:" + tb), okp, "forget_call removes the call's entry from self.%s on every path that finds one" % tb if okp else
              "forget_call can finish without removing the call's entry from self.%s (the by-pass is not conditioned on that table): "
              "what is left there outlives the forget and is attached to the call again when it is memoized later; the filesystem "
              "backend removes everything under the call's file prefix" % tb, fc.where(_bypass_site(fc, rem, absent)))
    fe = FA(ck, MEMBACK + ".forget_everything")
    cl = set()
    for c in fe.calls("clear"):
        # the cleared table, named directly or reached through a loop variable / alias
        cl |= {d[5:] for d in (fe.deps(A.call_recv(c)) if fe.nodes(c) else set()) if d.startswith("attr:self.")} | {A.dotted(A.call_recv(c))}
    # a table rebound to a fresh empty container is emptied as well
    for st in fe.stmts(ast.Assign):
        v_ = st.value
        empty = (isinstance(v_, (ast.Dict, ast.List, ast.Set)) and not (getattr(v_, "keys", None) or getattr(v_, "elts", None))) or \
            (isinstance(v_, ast.Call) and A.call_attr(v_) in ("dict", "OrderedDict", "list", "set") and not v_.args and not v_.keywords) or \
            (isinstance(v_, ast.Call) and A.call_attr(v_) == "defaultdict" and len(v_.args) <= 1 and not v_.keywords)
        if empty:
            for t_ in st.targets:
                if self_attr(t_):
                    cl.add("self." + self_attr(t_))
    okE = {"self." + t for t in tables} <= cl
    ck.ob(R, fe.key(None, "tables"), okE, "forget_everything clears all tables" if okE else
          "forget_everything does not clear all of %s" % (tables,), fe.where())
    fF = FA(ck, MEMBACK + ".forget_function")
    per_call = [c for c in fF.calls("forget_call") if A.dotted(A.call_recv(c)) == "self"]
    okF = bool(per_call) and any(isinstance(fF.enclosing(c, ast.For), ast.For) and ("list_mementos" in A.norm(fF.enclosing(c, ast.For).iter)
                                                                                    or "call:list_mementos" in fF.deps(fF.enclosing(c, ast.For).iter)) for c in per_call)
    sweep_ok = {}
    # custom metadata (and results) are keyed per call and can exist for calls that have no memento: they go with the
    # function as well, selected by the '<qualified name>/' prefix (terminated, so that f#1 does not take f#10 along)
    for tb in ("metadata", "result"):
        # prefix tests on keys that come out of self.<tb> (the tested variable is bound by a comprehension or a loop over it)
        def _deps_at(e, at):
            """dependency atoms of `e`, evaluated at the statement that contains `at` (works inside a lambda body as well)"""
            ids_ = fF.nodes(e) or fF.nodes(at)
            x_ = at
            while not ids_ and x_ is not None:
                x_ = fF.pm.get(x_)  # out of a lambda body, up to something the CFG knows
                ids_ = fF.nodes(x_) if x_ is not None else []
            out_ = set()
            for i_ in ids_:
                out_ |= fF.df.deps(e, i_)
            return out_
        sw_all = _prefix_tests(fF, ck)
        sel = [(at, pre) for (c, subj, pre, at, it) in sw_all if it is not None and "attr:self." + tb in _deps_at(it, at)]
        def _is_tb(e, at, tb=tb):
            return A.norm(e) == "self." + tb or (bool(fF.nodes(at)) and "attr:self." + tb in fF.deps(e))
        rem = [n for n in A.walk_body(fF.node) if (isinstance(n, ast.Delete) and any(isinstance(t, ast.Subscript) and _is_tb(t.value, n) for t in n.targets))
               or (isinstance(n, ast.Call) and A.call_attr(n) == "pop" and _is_tb(A.call_recv(n), n))]
        ownF = [p_ for p_ in fF.fi.params if p_ != "self"]

        def _terminated(c, pre):
            """the prefix is <function reference>.qualified_name followed by exactly '/', however it is put together"""
            parts = A.str_parts(safe_expand(fF, pre, c))
            if parts is not None:
                return len(parts) == 2 and parts[0][0] == "expr" and parts[1] == ("lit", "/") and bool(ownF) and A.norm(parts[0][1]) == ownF[0] + ".qualified_name"
            d_ = _deps_at(pre, c)
            return "const:'/'" in d_ and "qualified_name" in {x.split(".")[-1] for x in d_ if x.startswith("attr:")}
        term = bool(sel) and all(_terminated(c, pre) for (c, pre) in sel)
        okT = bool(sel) and bool(rem) and term
        sweep_ok[tb] = okT
        if tb == "result" and not sel:
            continue  # results are removed per memento by forget_call; a prefix sweep is optional
        ck.ob(R, fF.key(None, "by-prefix:" + tb), okT, "forget_function drops %s entries under '<qualified name>/'" % tb if okT else
              "forget_function leaves %s entries of calls that have no memento (the filesystem backend drops them with the function's directory): "
              "no terminated '<qualified name>/' prefix sweep over self.%s" % (tb, tb), fF.where())
    # the mementos (and results) of the function go call by call through forget_call -- or all at once: the function's whole
    # table of mementos is removed on every path and both per-call tables are swept by the terminated prefix
    if not okF and sweep_ok.get("metadata") and sweep_ok.get("result"):
        ownF_ = [p_ for p_ in fF.fi.params if p_ != "self"]
        whole = []
        for c in fF.calls("pop"):
            if c.args and self_attr(A.call_recv(c), "mementos") and fF.unconditional(c) and bool(ownF_) and _xt(fF, c.args[0], c) == ownF_[0] + ".qualified_name":
                whole.append(c)
        for st in fF.stmts(ast.Delete):
            if any(isinstance(t, ast.Subscript) and self_attr(t.value, "mementos") and bool(ownF_) and _xt(fF, t.slice, st) == ownF_[0] + ".qualified_name" for t in st.targets):
                whole.append(st)
        gone = branch_filter(fF, lambda t, p: (not p) and t.endswith(" in self.mementos"))
        okF = bool(whole) and fF.cfg.exit not in fF.cfg.reach([fF.cfg.entry], removed=fF.nodes_all(whole), edge_ok=gone)
    ck.ob(R, fF.key(None, "per-call"), okF, "forget_function forgets each memento of exactly this function" if okF else
          "forget_function does not iterate this function's mementos through forget_call", fF.where())


def _enumerated_fields(ck, cls):
    """Fields of `cls` whose key set / length / iteration is visible through a query."""
    out = set()
    for name, m in cls.methods.items():
        if name not in QUERY_METHODS:
            continue
        for n in A.walk_body(m.node):
            if isinstance(n, ast.Call) and A.call_attr(n) in ("keys", "items", "values") and self_attr(A.call_recv(n)):
                out.add(A.call_recv(n).attr)
            if isinstance(n, ast.Call) and A.call_attr(n) in ("len", "list", "sorted", "set") and n.args and self_attr(n.args[0]):
                out.add(n.args[0].attr)
            if isinstance(n, (ast.For, ast.comprehension)) and self_attr(n.iter):
                out.add(n.iter.attr)
    return out


def _lookup_cannot_create(ck, fi, sub) -> bool:
    """A subscript load `T[k]` on a defaultdict creates an entry only when k is absent: a look-up that every way to it has
    established `k in T` for (if statement, guard clause, conditional expression, `and`) creates nothing."""
    if not (isinstance(sub, ast.Subscript) and fi is not None and fi.node is not None):
        return False
    fa = FA(ck, fi)
    ids = fa.nodes(sub)
    if not ids:
        return False
    try:
        want = "%s in %s" % (fa.xnorm(sub.slice, ids[0]), fa.xnorm(sub.value, ids[0]))
    except AnalysisError:
        return False
    # inside the statement: the arm of a conditional expression / the operand behind `and` that the membership test guards
    n = sub
    while n is not None and not isinstance(n, ast.stmt):
        p_ = fa.pm.get(n)
        tests = []
        if isinstance(p_, ast.IfExp) and n is not p_.test:
            tests = [(p_.test, n is p_.body)]
        elif isinstance(p_, ast.BoolOp) and isinstance(p_.op, ast.And):
            tests = [(v, True) for v in p_.values[:p_.values.index(n)]] if n in p_.values else []
        elif isinstance(p_, (ast.ListComp, ast.SetComp, ast.GeneratorExp, ast.DictComp)):
            tests = [(c_, True) for g in p_.generators for c_ in g.ifs] if not any(n is g.iter for g in p_.generators) else []
        for (t, pol) in tests:
            try:
                if any(l == (want, True) for l in fa._atoms(t, ids[0], pol)):
                    return True
            except AnalysisError:
                pass
        n = p_
    try:
        conds = fa.conditions(fa.stmt_of(sub) or sub)
    except AnalysisError:
        return False
    return bool(conds) and all((want, True) in c_ for c_ in conds)


def check_queries_effect_free(ck, rule="C05.R3"):
    ck.rule(rule, "queries have no persistent effect: no filesystem write and no mutation of observable backend state "
                  "is reachable from any query method of any StorageBackend implementation (filling the MemoryCache is "
                  "the one allowed effect); listings do not enumerate empty shells left by forget", 20)
    repo = ck.repo
    persist_bases = [repo.cls("storage.StorageBackend"), repo.cls("storage_base.DataSource"), repo.cls("storage_base.MetadataSource")]
    def is_persist_owner(owner_qual):
        c = repo.try_cls(owner_qual)
        return c is not None and any(repo.is_subclass(c, b) for b in persist_bases)
    seen = set()
    for cls in storage_backend_classes(ck):
        enum_fields = _enumerated_fields(ck, cls)
        for q in QUERY_METHODS:
            m = repo.find_method(cls, q)
            if m is None or repo.is_abstract(m):
                continue
            if (m.qual, cls.qual) in seen:
                continue
            seen.add((m.qual, cls.qual))
            ck.functions_analysed.add(m.qual)
            fs, muts, prev = reach_effects(ck, m)
            ck.paths_enumerated += len(prev)
            key = "%s.%s" % (cls.qual, q)
            ck.ob(rule, key + "::fs-write", not fs,
                  "no filesystem write reachable (%d functions explored)" % len(prev) if not fs else
                  "filesystem write reachable from a query: %s at %s via %s" % (A.short(fs[0][1], 50), A.loc(fs[0][0], fs[0][1]), fs[0][2]),
                  A.loc(m, m.node))
            bad = []
            for (owner, fld, fi, node, chain) in muts:
                if not is_persist_owner(owner):
                    continue
                # a look-up that creates an entry in a defaultdict changes backend state too, whether or not a query
                # enumerates that table today (and it does so on a read-only backend as well) -- unless the key was
                # found to be present first
                if fld.endswith(":autoviv") and _lookup_cannot_create(ck, fi, node):
                    continue
                bad.append((owner, fld, fi, node, chain))
            if bad:
                for (owner, fld, fi, node, chain) in bad[:3]:
                    ck.ob(rule, "%s::%s::%s" % (key, fi.qual, A.head(fi_stmt(fi, node), 70)), False,
                          "query mutates backend state %s.%s (%s) via %s" % (owner.split(".")[-1], fld, A.short(node, 50), chain),
                          A.loc(fi, node))
            else:
                ck.ob(rule, key + "::state", True, "no mutation of backend state reachable", A.loc(m, m.node))
    # empty shells: EITHER the listing filters empty inner tables OR every forget removes them
    mb = repo.cls(MEMBACK)
    lf = FA(ck, MEMBACK + ".list_functions")
    outer = None
    for n in A.walk_body(lf.node):
        if isinstance(n, ast.Call) and A.call_attr(n) in ("keys", "items") and self_attr(A.call_recv(n)):
            outer = A.call_recv(n).attr
        if isinstance(n, ast.comprehension) and self_attr(n.iter):
            outer = n.iter.attr
    if outer is not None:
        filters = any(isinstance(n, ast.comprehension) and n.ifs for n in A.walk_body(lf.node))
        if not filters:
            for name in ("forget_call", "forget_function"):
                fa = FA(ck, MEMBACK + "." + name)
                # a deletion of the outer key: del self.<outer>[k] / self.<outer>.pop(k)
                def is_outer(e, at):
                    return self_attr(e, outer) or _xt(fa, e, at) == "self." + outer      # named directly or through an alias
                removes = [s for s in fa.stmts(ast.Delete) if any(isinstance(t, ast.Subscript) and is_outer(t.value, s) for t in s.targets)]
                removes += [c for c in fa.calls("pop") if A.call_recv(c) is not None and is_outer(A.call_recv(c), c)]
                delegated = name == "forget_function" and False
                shell_clear = [c for c in fa.calls("clear") if isinstance(A.call_recv(c), ast.Subscript) and self_attr(A.call_recv(c).value, outer)]
                ok = bool(removes) and not shell_clear
                ck.ob(rule, fa.key(None, "no-empty-shell"), ok,
                      "%s removes the function's table when it becomes empty" % name if ok else
                      "%s leaves an empty table under self.%s[...] which list_functions enumerates: a forgotten function is still listed" % (name, outer),
                      fa.where())
        else:
            ck.ob(rule, lf.key(None, "no-empty-shell"), True, "list_functions filters empty tables", lf.where())


def fi_stmt(fi, node):
    pm = A.parent_map(fi.node)
    return A.enclosing_stmt(pm, node) or node


def check_cache_coherence(ck, cm):
    R = "C05.R4"
    c06.check_replace_on_put(ck, cm, R)
    ck.expected[R] = 3
    # memoize writes through on every non-read-only path, before the store can fail half-way
    fa = FA(ck, effective_function(ck, ck.fn(BACKEND_BASE + ".memoize")))
    # the put is applied to the cache by whatever dispatches it (plain call, bound method, methodcaller, a null-object
    # property, a loop over the layers): a path may finish without it only on a branch edge that says "no cache" or
    # "read-only" (whatever the nesting, the polarity of the test or a temporary holding the flag)
    def excuse0(t, p):
        return _no_cache(t, p) or (p and t == "self.read_only")
    excuse = _through_properties(ck, fa.fi.cls, excuse0)
    pn, psites = _layer_application_nodes(ck, fa, "put", "_memory_cache", excuse)
    edge_ok = branch_filter(fa, excuse)
    ok = bool(pn) and fa.cfg.exit not in fa.cfg.reach([fa.cfg.entry], removed=pn, edge_ok=edge_ok)
    ck.ob(R, fa.key(None, "write-through"), ok, "memoize writes through to the cache on every writable path" if ok else
          "memoize can store without updating the memory cache: a stale cached value outlives the new one", fa.where())
    # ... and only once the store has accepted the memento: a cache that is filled first keeps claiming the call is memoized
    # when the store's write fails (listings and other processes say it is not; the result is never written again)
    fx = FA(ck, fa.fi, exc_mode="all")
    px, _ps = _layer_application_nodes(ck, fx, "put", "_memory_cache", excuse)
    sx, _ss = _layer_application_nodes(ck, fx, "put_memento", "_metadata_source", None)
    if px and sx:
        # ways on which the store's write has not completed normally: around it, or out of it through an exception edge
        unfinished = fx.cfg.reach([fx.cfg.entry], edge_ok=lambda s_, d_, l_: not (s_ in sx and l_ != "exc"))
        early = [i for i in px if i in unfinished]
        oke = not early
        ck.ob(R, fa.key(None, "write-through-after-store"), oke, "the cache is filled only after the store has accepted the memento" if oke else
              "memoize can put the result into the memory cache before (or although) self._metadata_source.put_memento has not completed: when the "
              "store's write fails the cache keeps answering that the call is memoized while the store does not have it",
              fa.where(fx.cfg.node(early[0]).ast if early else None))
    for (c, args_, kws_) in psites:
        b_ = _bind(ast.Call(func=c.func, args=list(args_), keywords=list(kws_)), cm.insert.params)
        hv = b_.get("has_result")
        okv = [_xt(fa, b_.get(x), c) for x in ("memento", "result")] == ["memento", "result"] and hv is not None and _xt(fa, hv, c) == "True"
        ck.ob(R, fa.key(c, "args"), okv, "cache receives (memento, result, has_result=True)" if okv else
              "the write-through does not pass the memoized (memento, result) with has_result=True", fa.where(c))
    # replace-on-put also covers the weak-reference slot: when the new value cannot be weakly
    # referenced, the slot of the previous value must be cleared (it would be served later)
    if cm.refs:
        for name, m in cm.cls.methods.items():
            fa_ = FA(ck, m, exc_mode="all")     # the store into a weak table has no call: only implicit exception edges reach its handler
            for st in fa_.stmts(ast.Assign):
                if any(isinstance(t, ast.Subscript) and self_attr(t.value, cm.refs) for t in st.targets):
                    tr = fa_.enclosing(st, ast.Try)
                    if tr is None or not any(fa_.inside(st, b) for b in tr.body):
                        continue
                    # what empties the key's weak slot: pop / del on the weak table (inside the handler, or before the store
                    # is attempted -- on every way that comes through the handler and goes on to the normal exit)
                    clear_nodes = [n for n in A.walk_body(fa_.node)
                                   if (isinstance(n, ast.Call) and A.call_attr(n) == "pop" and self_attr(A.call_recv(n), cm.refs) and fa_.unconditional(n))
                                   or (isinstance(n, ast.Delete) and any(isinstance(t, ast.Subscript) and self_attr(t.value, cm.refs) for t in n.targets))]
                    absent_ = branch_filter(fa_, lambda t, p, r_=cm.refs: (not p) and (" in self.%s" % r_) in t)
                    for h in tr.handlers:
                        swallows = not any(isinstance(n, ast.Raise) for n in A.walk_local(h))
                        hn = fa_.nodes(h)
                        clears = bool(hn) and bool(clear_nodes) and every_path_through(fa_, hn, fa_.nodes_all(clear_nodes), edge_ok=absent_)
                        if not hn:
                            clears = any(fa_.inside(n, h) for n in clear_nodes)
                        okw = (not swallows) or clears
                        ck.ob(R, fa_.key(None, "weak-slot-replaced"), okw, "a value that cannot be weakly referenced clears the key's weak slot" if okw else
                              "when the new value cannot be weakly referenced the handler keeps the previous value's weak reference: after the entry "
                              "is evicted, read_result serves the OLD object for that call", fa_.where(h))
    # a memento-only cache entry never answers a value read
    gm = FA(ck, BACKEND_BASE + ".get_mementos")
    for c in _field_calls(gm, "_memory_cache", "put"):
        b_ = _bind(c, cm.insert.params)
        hv = b_.get("has_result")
        okh = hv is not None and _xt(gm, hv, c) == "False" and b_.get("result") is not None and _xt(gm, b_["result"], c) == "None"
        ck.ob(R, gm.key(c, "memento-only"), okh, "a memento found in the store is cached without a value" if okh else
              "get_mementos caches a memento with has_result set / a value: a later read_result is served None (or junk) from the cache instead of the stored value", gm.where(c))
    crr = FA(ck, "storage_base.MemoryCache.read_result")
    # the places where <entry>.value is read in order to be returned (in the return itself or into a result variable)
    vr = []
    for r in crr.returns():
        for (v_, at_) in value_sources(crr, r):
            try:
                if crr.xnorm(v_, at_).endswith(".value"):
                    vr.append(at_)
            except AnalysisError:
                pass
    # every way to such a read takes a branch edge that says the entry holds a value (any polarity / nesting of the
    # test; the other edge raises KeyError or answers from somewhere else, it never reaches the read)
    holds = branch_filter(crr, lambda t, p: p and t.endswith(".has_value"))
    okv = bool(vr) and not (set(vr) & crr.cfg.reach([crr.cfg.entry], edge_ok=holds))
    ck.ob(R, crr.key(None, "value-only-if-has-value"), okv, "the cache serves a value only from an entry that holds one (else KeyError => store)" if okv else
          "MemoryCache.read_result can return entry.value of a memento-only entry (has_value False): the caller gets None instead of the stored result", crr.where())
    # read path: cache consulted first, and the value read from the store is put back
    rr = FA(ck, BACKEND_BASE + ".read_result")
    loads = rr.some([c for c in rr.calls("load") if A.dotted(A.call_recv(c)) == "self.codec"], "self.codec.load call")
    for c in _field_calls(rr, "_memory_cache", "put"):
        b_ = _bind(c, cm.insert.params)
        hv = b_.get("has_result")
        okb = b_.get("memento") is not None and b_.get("result") is not None and _xt(rr, b_["memento"], c) == "memento" \
            and _xt(rr, b_["result"], c).startswith("self.codec.load(") \
            and hv is not None and _xt(rr, hv, c) == "True" and "call:load" in rr.deps(b_["result"])
        ck.ob(R, rr.key(None, "fill-with-loaded-value"), okb, "the value loaded from the store is what fills the cache" if okb else
              "read_result fills the cache with something else than (memento, <loaded value>, has_result=True)", rr.where(c))
    for c in loads:
        args = [_xt(rr, a, c) for a in c.args]
        ok = len(args) == 3 and args[0].endswith("invocation_metadata.result_type") and args[1] == "self._data_source" and args[2].endswith(".content_key") \
            and args[0].startswith("memento.") and args[2].startswith("memento.")
        ck.ob(R, rr.key(c, "load-args"), ok, "the result is loaded by the memento's own result type and content key" if ok else
              "read_result does not load (memento.result_type, data source, memento.content_key)", rr.where(c))


class PathModel:
    """Store paths of the metadata source as flat part lists, whatever builds them (format / f-string / `+`, through
    temporaries, with the private builders `_get_path` / `_get_function_path` called or written out in place):

        ('fnpath', <function reference text>)   the function's directory  m/<qualified name>
        ('lit', text)                           literal text
        ('expr', text)                          any other interpolated value (locals expanded)

    so the call path of (fn, h) is always [('fnpath', fn), ('lit', '/'), ('expr', h)] followed by the name's suffix."""

    def __init__(self, ck):
        self.ck = ck
        self._getpath = None

    def _get_path_shape(self):
        """parts of `_get_path(fn_reference, arg_hash)` in terms of its two parameters (None if the helper is gone)"""
        if self._getpath is None:
            fi = self.ck.repo.try_func(MDS + "._get_path")
            if fi is None:
                self._getpath = False
            else:
                g = FA(self.ck, fi)
                r = g.one([r for r in g.returns() if r.value is not None], "return with a value")
                self._getpath = (self.flatten(g, r.value, r), list(fi.params))
        return self._getpath or None

    def flatten(self, fa: FA, e, at=None):
        ids = fa.nodes(at if at is not None else e)
        try:
            x = fa.expand(e, ids[0]) if ids else e
        except AnalysisError:
            x = e
        return self._post(self._flat(x))

    def _flat(self, x):
        # DataSourceKey(<str>) and <key>.key are transparent
        if isinstance(x, ast.Call) and A.call_attr(x) == "DataSourceKey" and len(x.args) == 1 and not x.keywords:
            return self._flat(x.args[0])
        if isinstance(x, ast.Call) and A.call_attr(x) == "str" and len(x.args) == 1:
            return self._flat(x.args[0])
        if isinstance(x, ast.Attribute) and x.attr == "key" and isinstance(x.value, ast.Call):
            if A.call_attr(x.value) == "_get_function_path" and len(x.value.args) + len(x.value.keywords) == 1:
                return [("fnpath", A.norm(A.arg_or_kw(x.value, 0, "fn_reference")))]
            if A.call_attr(x.value) == "DataSourceKey" and len(x.value.args) == 1:
                return self._flat(x.value.args[0])
        if isinstance(x, ast.Call) and A.call_attr(x) == "_get_function_path" and len(x.args) + len(x.keywords) == 1:
            return [("fnpath", A.norm(A.arg_or_kw(x, 0, "fn_reference")))]
        if isinstance(x, ast.Call) and A.call_attr(x) == "_get_path" and len(x.args) + len(x.keywords) == 2:
            shape = self._get_path_shape()
            if shape is not None:
                parts, params = shape
                b = _bind(x, params)
                sub = {p_: A.norm(b[p_]) for p_ in params if p_ in b}
                out = []
                for (k, v) in parts:
                    if k in ("fnpath", "expr") and v in sub:
                        out.append((k, sub[v]))
                    else:
                        out.append((k, v))
                return out
        sp = A.str_parts(x)
        if sp is None:
            return [("expr", A.norm(x))]
        out = []
        for (k, v) in sp:
            if k == "lit":
                out.append(("lit", v))
            elif v is x:
                out.append(("expr", A.norm(v)))
            else:
                out += self._flat(v)
        return out

    @staticmethod
    def _post(parts):
        # merge literals; <prefix>.key '/' <fn>.qualified_name  ==  the function path written out in place
        merged = []
        for (k, v) in parts:
            if k == "lit" and merged and merged[-1][0] == "lit":
                merged[-1] = ("lit", merged[-1][1] + v)
            elif not (k == "lit" and v == ""):
                merged.append((k, v))
        out = []
        i = 0
        while i < len(merged):
            if i + 2 < len(merged) and merged[i][0] == "expr" and merged[i][1].endswith("_function_path_prefix.key") and merged[i + 1][0] == "lit" \
                    and merged[i + 1][1] == "/" and merged[i + 2][0] == "expr" and merged[i + 2][1].endswith(".qualified_name"):
                out.append(("fnpath", merged[i + 2][1][:-len(".qualified_name")]))
                i += 3
            else:
                out.append(merged[i])
                i += 1
        return out

    @staticmethod
    def call_path(parts):
        """-> (function reference text, arg hash text, rest of the parts) when `parts` starts with a call path"""
        if len(parts) >= 3 and parts[0][0] == "fnpath" and parts[1][0] == "lit" and parts[1][1].startswith("/") and parts[1][1] == "/" and parts[2][0] == "expr":
            return parts[0][1], parts[2][1], parts[3:]
        return None


def _fmt_suffix(fa: FA):
    """a returned string built as <x> + '.memento.json' (format / f-string / concatenation) -> [(call-like node, '{}.memento.json')]
    The node offered is a pseudo-call whose .args are the interpolated expressions, so callers can keep
    asking which calls feed it."""
    out = []
    for r in fa.returns():
        if r.value is None:
            continue
        for x in ast.walk(r.value):
            t = A.str_template(x)
            if t is not None and t[0].startswith("{}") and len(t[0]) > 2 and t[1]:
                tmpl = t[0]
                # several leading fields ('{}/{}.memento.json'): keep the part from the last field on
                last = tmpl.rfind("{}")
                node = ast.Call(func=ast.Name(id="format", ctx=ast.Load()), args=list(t[1]), keywords=[])
                ast.copy_location(node, x)
                out.append((node, "{}" + tmpl[last + 2:]))
                break
    return out


def check_path_scheme(ck):
    R = "C05.R5"
    ck.rule(R, "path scheme: string constants used to build store paths equal those used to parse / filter them", 8)
    mp = FA(ck, MDS + "._get_metadata_path")
    pmod = PathModel(ck)

    def call_named(fa_, r):
        """per value the return may hand out (a name built on several branches gives one each):
        [(is the name the call path of the method's own (fn_reference, arg_hash)?, parts after the call path)]"""
        out_ = []
        ids_ = fa_.nodes(r)
        for alt in (_alternatives(fa_, r.value, ids_[0]) if ids_ else [r.value]):
            parts = pmod._post(pmod._flat(alt))
            cp = PathModel.call_path(parts)
            arg = [p_ for p_ in fa_.fi.params if p_ != "self"]
            own = cp is not None and bool(arg) and cp[0] == arg[0] + ".fn_reference" and cp[1] == arg[0] + ".arg_hash"
            out_.append((own, (cp[2] if cp is not None else parts)))
        return out_

    named = [x for r in mp.some([r for r in mp.returns() if r.value is not None], "return with a value") for x in call_named(mp, r)]
    sufs = {rest[0][1] if len(rest) == 1 and rest[0][0] == "lit" else None for (_own, rest) in named}
    if None in sufs and all(own for (own, _r) in named):
        raise AnalysisError("%s: cannot identify the literal suffix of memento file names" % mp.qual)
    ck.ob(R, mp.key(None, "prefix-is-call-path"), all(own for (own, _r) in named),
          "memento file name starts with the call path", mp.where())
    sufs.discard(None)
    ck.need(len(sufs) == 1, "%s: cannot identify the literal suffix of memento file names" % mp.qual)
    suffix = sufs.pop()
    lm = FA(ck, MDS + ".list_mementos")
    lk = lm.one(lm.calls("list_keys_nonversioned"), "list_keys_nonversioned call")
    lkp = ck.repo.try_func("storage_base.DataSource.list_keys_nonversioned")
    lk_params = lkp.params if lkp is not None else ["self", "directory", "file_prefix", "recursive", "limit", "endswith"]
    ew = _bind(lk, lk_params).get("endswith")
    ok = ew is not None and A.const_str(safe_expand(lm, ew, lk)) == suffix
    ck.ob(R, lm.key(lk, "suffix"), ok, "listing filters on the writer's suffix %r" % suffix if ok else
          "list_mementos filters on %s but mementos are written with suffix %r" % (A.norm(ew), suffix), lm.where(lk))
    d = _bind(lk, lk_params).get("directory")
    okd = d is not None and "call:_get_function_path" in lm.deps(d)
    ck.ob(R, lm.key(lk, "directory"), okd, "listing scans exactly the function's directory" if okd else
          "list_mementos does not scan the directory returned by _get_function_path", lm.where(lk))
    mk = FA(ck, MDS + "._get_metadata_key")
    knamed = [x for r in mk.some([r for r in mk.returns() if r.value is not None], "return with a value") for x in call_named(mk, r)]
    okk = all(own and rest and rest[0][0] == "lit" and rest[0][1] and not rest[0][1].startswith(suffix) and not suffix.startswith(rest[0][1]) for (own, rest) in knamed)
    ck.ob(R, mk.key(None, "metadata-name"), okk, "custom metadata names start with the call path and cannot end like a memento" if okk else
          "custom metadata file names collide with memento file names", mk.where())
    # list_functions strips '<prefix>/'
    lf = FA(ck, MDS + ".list_functions")
    lkf = lf.one(lf.calls("list_keys_nonversioned"), "list_keys_nonversioned call")
    blf = _bind(lkf, lk_params)
    dirv, recv = blf.get("directory"), blf.get("recursive")
    okf = dirv is not None and "attr:DataSourceMetadataSource._function_path_prefix" in lf.deps(dirv) and \
        (recv is None or _xt(lf, recv, lkf) == "False")
    ck.ob(R, lf.key(lkf, "directory"), okf, "functions are listed from the metadata prefix, one level" if okf else
          "list_functions does not list exactly the first level under the metadata prefix", lf.where(lkf))
    gf = FA(ck, MDS + "._get_function_path")
    okg = "attr:DataSourceMetadataSource._function_path_prefix.key" in gf.deps(gf.one(gf.returns(), "return").value)
    ck.ob(R, gf.key(None, "prefix"), okg, "function path starts with the metadata prefix" if okg else
          "function paths are no longer built under the metadata prefix that list_functions scans", gf.where())
    # filesystem data source: .link suffix, .versions directory, escape/unquote
    lp = FA(ck, FSDS + "._get_non_versioned_link_path")
    lpr = lp.one([r for r in lp.returns() if r.value is not None], "return")
    lits = [s for s in A.strings_in(_canon_strings(safe_expand(lp, lpr.value, lpr)))]
    ck.need(len(lits) == 1, "link path builder: cannot identify the link suffix")
    link = lits[0]
    ls = FA(ck, FSDS + ".list_keys_nonversioned")
    strips = _suffix_strip_sites(ck, ls)
    ck.need(strips, "list_keys_nonversioned: no link-suffix strip site found")
    # every walker turns link file names into key names (unless the listing does it for all of them afterwards)
    in_listing = any(f_.fi is ls.fi for (f_, *_r) in strips)
    for wname, wfi in _walkers(ck, ls).items():
        if in_listing or any(f_.fi is wfi for (f_, *_r) in strips):
            continue
        if any(link in s_ for s_ in A.strings_in(wfi.node)):
            raise AnalysisError("list_keys_nonversioned: %s mentions %r but no link-suffix strip site is recognised in it (unsupported idiom)" % (wname, link))
        ck.ob(R, "%s::strips-link-suffix" % wfi.qual, False,
              "%s hands out file names without removing the %r suffix of link files: a stored key `k` is listed as `k%s`, which no look-up finds" % (wname, link, link),
              A.loc(wfi, wfi.node))
    for (f_, st, n, lit, cut, conds) in strips:
        fn = f_.fi
        ok = lit == link and cut == len(link)
        ck.ob(R, "%s::%s" % (fn.qual, A.head(n)), ok, "listing strips exactly the %r suffix" % link if ok else
              "listing strips %r/%s characters but links are written with suffix %r" % (lit, cut, link), A.loc(fn, n))
        # only FILES are links: a directory whose name happens to end in the link suffix (a function
        # version such as "1.link") is a key component and must be listed unaltered
        files_only = False
        x = st
        while x is not None:
            x = f_.pm.get(x)
            if isinstance(x, ast.For) and isinstance(x.iter, ast.Name):
                # `for filename in filenames` under `for dirpath, dirnames, filenames in os.walk(..)`
                y = x
                while y is not None:
                    y = f_.pm.get(y)
                    if isinstance(y, ast.For) and isinstance(y.iter, ast.Call) and A.call_attr(y.iter) == "walk" \
                            and isinstance(y.target, ast.Tuple) and len(y.target.elts) == 3 and A.norm(y.target.elts[2]) == x.iter.id:
                        files_only = True
        # every way to the strip has established "not a directory" / "a file" (either polarity of the test, guard clause or nesting)
        def is_file_lit(t, p):
            return (not p and ("is_dir()" in t or "isdir(" in t)) or (p and ("is_file()" in t or "isfile(" in t))
        guarded = conds is not None and bool(conds) and all(any(is_file_lit(t, p) for (t, p) in c_) for c_ in conds)
        ck.ob(R, "%s::%s::files-only" % (fn.qual, A.head(n)), files_only or guarded,
              "the %r suffix is stripped from file names only" % link if files_only or guarded else
              "the %r suffix is stripped from every directory entry, sub-directories included: a function whose version ends in %r "
              "(its directory is <name>#<version>) is listed under a truncated version that was never memoized" % (link, link), A.loc(fn, n))
    pv = FA(ck, FSDS + "._get_path_versioned")
    lits_pv = _versions_dir_literals(ck)
    if ck.repo.try_func(FSDS + "._get_versions_directory") is not None:
        vd = FA(ck, FSDS + "._get_versions_directory")
        lits_vd = _dot_components(vd)
    else:
        # the directory builder was inlined into the delete scan: the names are those that flow into the scan's iterable
        dk = FA(ck, FSDS + "._delete_all_versions_for_key")
        lits_vd = set()
        for lp in dk.stmts(ast.For):
            d = dk.deps(lp.iter)
            if "call:glob" in d or "call:iterdir" in d or "call:listdir" in d or "call:scandir" in d:
                for x in d:
                    if x.startswith("const:'.") and "*" not in x and "{" not in x:
                        lits_vd.add(x[7:-1])
    okv = len(lits_pv) == 1 and lits_pv == lits_vd
    ck.ob(R, pv.key(None, "versions-dir"), okv, "object paths and the delete scan agree on %s" % sorted(lits_pv) if okv else
          "version directory name differs between writer %s and deleter %s" % (sorted(lits_pv), sorted(lits_vd)), pv.where())
    vlit = sorted(lits_pv)[0] if lits_pv else ".versions"
    # every entry a walker hands out was reached past a test that excludes the versions directory (guard clause with `continue`,
    # nested if, either polarity); text comparison only where the walker has no recognisable emit statement
    units = list(_walkers(ck, ls).values()) or [ls.fi]
    skip_ok = 0
    for fn in units:
        f_ = ls if fn is ls.fi else FA(ck, fn)
        emits = [st for st in f_.stmts(ast.Expr) if isinstance(st.value, (ast.Yield, ast.YieldFrom))
                 or (isinstance(st.value, ast.Call) and A.call_attr(st.value) == "append" and any(isinstance(x, ast.Call) and A.call_attr(x) == "DataSourceKey" for x in ast.walk(st.value)))]
        decided = None
        if emits:
            decided = True
            for st in emits:
                try:
                    conds = f_.conditions(st) if f_.nodes(st) else None
                except AnalysisError:
                    conds = None
                if conds is None:
                    decided = None
                    break
                if not (conds and all(any((not p_) and vlit in t_ for (t_, p_) in c_) for c_ in conds)):
                    decided = False
        if decided is None:
            txt = A.norm(fn.node)
            decided = ("== %r" % vlit) in txt or ("%s{}" % vlit) in txt
        if decided:
            skip_ok += 1
    ck.ob(R, ls.key(None, "skip-versions"), skip_ok == len(units) and skip_ok > 0,
          "listings skip the version directories" if skip_ok == len(units) and skip_ok > 0 else
          "a listing walks into %r: version objects appear as keys" % vlit, ls.where())
    check_escape_inverse(ck, R)
    check_strip_is_not_prefix_removal(ck, R)
    check_created_paths(ck, R)


# ---- what the filesystem data source creates is what its deleter removes --------------------------------------------
LINK_BUILDER = "_get_non_versioned_link_path"
SCHEME_BUILDERS = (LINK_BUILDER, "_get_path_versioned")
_TEMP_MAKERS = ("mkstemp", "mkdtemp", "NamedTemporaryFile")
_TWO_PATH_FUNCS = {"os.replace", "os.rename", "os.renames", "os.link", "os.symlink", "shutil.move", "shutil.copy", "shutil.copy2", "shutil.copyfile"}
_MOVE_FUNCS = {"os.replace", "os.rename", "os.renames", "shutil.move"}
_UNLINK_FUNCS = {"os.unlink", "os.remove", "os.rmdir", "shutil.rmtree"}
_OS_ERRORS = ("OSError", "IOError", "EnvironmentError", "Exception", "BaseException")


def _strip_path_wrappers(e):
    """str(P) / Path(P) / os.fspath(P) / P.resolve() / P.absolute() -> P"""
    while True:
        if isinstance(e, ast.Call) and not e.keywords and len(e.args) == 1 and A.call_attr(e) in ("str", "Path", "PurePath", "fspath", "fsencode"):
            e = e.args[0]
        elif isinstance(e, ast.Call) and not e.args and not e.keywords and A.call_attr(e) in ("resolve", "absolute") and isinstance(e.func, ast.Attribute):
            e = e.func.value
        else:
            return e


def _canon_strings(e):
    """every string-building sub-expression (format / f-string / % / +) as one left-associated concatenation"""
    class T(ast.NodeTransformer):
        def visit(self, n):
            if isinstance(n, (ast.JoinedStr, ast.BinOp, ast.Call)):
                parts = A.str_parts(n)
                if parts and len(parts) > 1 and not all(k == "expr" and v is n for (k, v) in parts):
                    out = None
                    for (k, v) in parts:
                        node = ast.Constant(value=v) if k == "lit" else (self.visit(v) if v is not n else v)
                        out = node if out is None else ast.BinOp(left=out, op=ast.Add(), right=node)
                    return out
            return self.generic_visit(n)
    import copy
    return T().visit(copy.deepcopy(e))


def _inline_own_builders(ck, cls, e, depth=0):
    """calls of single-return methods of `cls` (self.m(..) / cls.m(..) / Class.m(..)) replaced by what they return"""
    import copy

    class T(ast.NodeTransformer):
        def visit_Call(self, n_):
            self.generic_visit(n_)
            f = n_.func
            if depth < 4 and isinstance(f, ast.Attribute) and isinstance(f.value, ast.Name) and f.value.id in ("self", "cls", cls.name) and f.attr in cls.methods:
                m = cls.methods[f.attr]
                rets = [s_ for s_ in A.all_stmts(m.node) if isinstance(s_, ast.Return) and s_.value is not None]
                if len(rets) == 1 and not any(isinstance(x, (ast.Yield, ast.YieldFrom)) for x in A.walk_body(m.node)):
                    try:
                        body = FA(ck, m).expand(rets[0].value)
                    except AnalysisError:
                        return n_
                    bound = _bind(n_, m.params)
                    if set(p_ for p_ in m.params if p_ != "self") - set(bound):
                        return n_

                    class S(ast.NodeTransformer):
                        def visit_Name(self, x_):
                            return copy.deepcopy(bound[x_.id]) if x_.id in bound and isinstance(x_.ctx, ast.Load) else x_

                    return _inline_own_builders(ck, cls, S().visit(body), depth + 1)
            return n_

    return T().visit(copy.deepcopy(e))


def _unify(t, e, holes, bind) -> bool:
    """does expression `e` instantiate template `t` (Names in `holes` stand for any sub-expression, consistently)?"""
    if isinstance(t, ast.Name) and t.id in holes:
        txt = A.norm(e)
        if t.id in bind:
            return bind[t.id] == txt
        bind[t.id] = txt
        return True
    if type(t) is not type(e):
        return False
    for f in t._fields:
        a, b = getattr(t, f, None), getattr(e, f, None)
        if isinstance(a, list):
            if not isinstance(b, list) or len(a) != len(b):
                return False
            for x, y in zip(a, b):
                if isinstance(x, ast.AST):
                    if not isinstance(y, ast.AST) or not _unify(x, y, holes, bind):
                        return False
                elif x != y:
                    return False
        elif isinstance(a, ast.AST):
            if not isinstance(b, ast.AST) or not _unify(a, b, holes, bind):
                return False
        elif f not in ("kind", "type_comment") and a != b:
            return False
    return True


class SchemePaths:
    """The paths under which the filesystem data source keeps a key: its link and its version objects (and the
    metadata beside them).  These are what `delete_all_versions` / the version scan remove.  A path expression is a
    scheme path when it is the result of one of the two builders, or spells out what a builder returns."""

    def __init__(self, ck):
        self.ck = ck
        self.cls = ck.repo.cls(FSDS)
        self.templates = []
        for b in SCHEME_BUILDERS:
            m = self.cls.methods.get(b)
            if m is None:
                continue
            fa = FA(ck, m)
            holes = set(p_ for p_ in m.params if p_ != "self")
            for r in fa.returns():
                if r.value is None:
                    continue
                body = safe_expand(fa, r.value, r)
                self.templates.append((_canon_strings(_inline_own_builders(ck, self.cls, body)), holes, b))
        ck.need(self.templates, "%s: the link / version path builders are gone" % FSDS)

    def is_scheme(self, e, which=None) -> bool:
        """is `e` (locals already expanded) a scheme path -- of the builder `which` when given"""
        names = SCHEME_BUILDERS if which is None else (which,)
        e = _strip_path_wrappers(e)
        if isinstance(e, ast.Call) and A.call_attr(e) in names and isinstance(e.func, ast.Attribute) \
                and isinstance(e.func.value, ast.Name) and e.func.value.id in ("self", "cls", self.cls.name):
            return True
        x = _canon_strings(_inline_own_builders(self.ck, self.cls, e))
        return any(_unify(t, x, holes, {}) for (t, holes, b) in self.templates if b in names)


def _link_removal_sites(ck, fa: FA, sp, _seen=()):
    """Calls in `fa` that remove a key's link file: `os.unlink / os.remove(P)`, `P.unlink()` with P the path the link
    builder returns (through temporaries / wrappers), or a call of a method of the data source that removes the link on
    every one of its own paths (see _always_removes_link)."""
    out = []
    cls = sp.cls
    for k in fa.calls():
        d, nm = A.call_dotted(k) or "", A.call_attr(k)
        if d in ("os.unlink", "os.remove") and k.args and sp.is_scheme(safe_expand(fa, k.args[0], k), LINK_BUILDER):
            out.append(k)
        elif nm == "unlink" and isinstance(k.func, ast.Attribute) and not d.startswith("os.") and sp.is_scheme(safe_expand(fa, k.func.value, k), LINK_BUILDER):
            out.append(k)
        elif isinstance(k.func, ast.Attribute) and isinstance(k.func.value, ast.Name) and k.func.value.id in ("self", "cls", cls.name) and nm in cls.methods:
            m = cls.methods[nm]
            if m.qual not in _seen and m.qual != fa.qual and _always_removes_link(ck, m, sp, tuple(_seen) + (fa.qual,)):
                out.append(k)
    return out


def _always_removes_link(ck, m, sp, _seen=()) -> bool:
    """Does every normal path through method `m` remove the link, except those that found no link file
    (`isfile` / `exists` false -- guard clause or nested, either polarity)?"""
    memo = ck.__dict__.setdefault("_c05_link_removers", {})
    if m.qual in memo:
        return memo[m.qual]
    fa = FA(ck, m)
    sites = _link_removal_sites(ck, fa, sp, _seen)
    nolink = branch_filter(fa, lambda t, p: (not p) and any(x in t for x in ("isfile(", "is_file()", "exists(", ".exists()")))
    ok = bool(sites) and fa.cfg.exit not in fa.cfg.reach([fa.cfg.entry], removed=fa.nodes_all(sites), edge_ok=nolink)
    if len(_seen) <= 1:
        memo[m.qual] = ok
    return ok


def _created_paths(fa: FA):
    """File-creating sites of `fa`: [(call, created path expression or None for a scratch maker, kind)]."""
    from ..callgraph import _open_mode_writes
    out = []
    for c in fa.calls():
        nm, d = A.call_attr(c), A.call_dotted(c) or ""
        if nm == "open" and d != "os.open":
            if _open_mode_writes(c):
                if isinstance(c.func, ast.Name) or d in ("io.open", "codecs.open"):
                    p_ = A.arg_or_kw(c, 0, "file")
                else:
                    p_ = A.call_recv(c)
                if p_ is not None:
                    out.append((c, p_, "opens for writing"))
        elif d == "os.open":
            if c.args:
                out.append((c, c.args[0], "opens"))
        elif nm in ("write_text", "write_bytes", "touch") and isinstance(c.func, ast.Attribute):
            out.append((c, c.func.value, "writes"))
        elif d in _TWO_PATH_FUNCS and len(c.args) >= 2:
            out.append((c, c.args[1], "moves / copies a file to"))
        elif nm in ("rename", "replace", "symlink_to", "link_to", "hardlink_to") and isinstance(c.func, ast.Attribute) and len(c.args) == 1 and not c.keywords \
                and not d.startswith(("os.", "shutil.")):
            # pathlib: P.rename(target) / P.replace(target); str.replace takes two arguments
            out.append((c, c.args[0], "moves a file to"))
        elif nm in _TEMP_MAKERS and A.kwarg(c, "dir") is not None:
            if nm == "NamedTemporaryFile":
                dl = A.kwarg(c, "delete")
                if not (isinstance(dl, ast.Constant) and dl.value is False):
                    continue   # removed when it is closed
            out.append((c, None, "creates a scratch file"))
    return out


def check_created_paths(ck, R):
    """Everything the filesystem data source leaves under the store is named by the key scheme -- the key's link or a
    version object under the versions directory -- because those are the only names the deleter (and hence forget)
    removes and the listings hide; any other file in a function's directory keeps that directory from ever being
    pruned, so the function stays listed with no live entry.  A scratch file (created under another name) is
    therefore either moved onto a scheme path or unlinked on EVERY way out of the method, failures included: the
    question is asked on the CFG with exceptional edges."""
    sp = SchemePaths(ck)
    cls = sp.cls
    n_sites = 0
    for name, m in cls.methods.items():
        fa = FA(ck, m, exc_mode="all")
        sites = _created_paths(fa)
        if not sites:
            continue
        cfg = fa.cfg

        def ref_text(e, at):
            return A.norm(_strip_path_wrappers(safe_expand(fa, e, at)))

        for (c, p_, what) in sites:
            n_sites += 1
            if p_ is not None:
                pe = safe_expand(fa, p_, c)
                if sp.is_scheme(pe):
                    ck.ob(R, fa.key(c, "created-path-in-scheme"), True, "%s the key's link / version object" % what, fa.where(c))
                    continue
                me = ref_text(p_, c)
            else:
                me = None
            maker = A.call_attr(c) if p_ is None else None

            def refers(e, at):
                """does `e` (an argument of a later call) name the scratch file created at `c`?"""
                if e is None:
                    return False
                if me is not None and ref_text(e, at) == me:
                    return True
                if maker is not None:
                    try:
                        return bool(fa.nodes(at)) and ("call:" + maker) in fa.deps(e)
                    except AnalysisError:
                        return False
                return False

            unlinks, moves = [], []
            for k in fa.calls():
                d = A.call_dotted(k) or ""
                nm = A.call_attr(k)
                if d in _UNLINK_FUNCS and k.args and refers(k.args[0], k):
                    unlinks.append(k)
                elif nm in ("unlink", "rmdir") and isinstance(k.func, ast.Attribute) and not d.startswith("os.") and refers(k.func.value, k):
                    unlinks.append(k)
                elif d in _MOVE_FUNCS and len(k.args) >= 2 and refers(k.args[0], k) and sp.is_scheme(safe_expand(fa, k.args[1], k)):
                    moves.append(k)
                elif nm in ("rename", "replace") and isinstance(k.func, ast.Attribute) and len(k.args) == 1 and not d.startswith(("os.", "shutil.")) \
                        and refers(k.func.value, k) and sp.is_scheme(safe_expand(fa, k.args[0], k)):
                    moves.append(k)
            starts = fa.nodes(c)
            # an unlink registered with an ExitStack before the file is created runs on every way out of that `with`
            if any(fa.inside(c, w_) and all(fa.cfg.must_pass(fa.nodes(k_), i_) for i_ in starts)
                   for (k_, w_) in _exit_callbacks_removing(ck, fa, refers)) and starts:
                ck.ob(R, fa.key(c, "created-path-in-scheme"), True, "the scratch file is unlinked by an exit callback registered before it is created", fa.where(c))
                continue
            un, mv = set(fa.nodes_all(unlinks)), set(fa.nodes_all(moves)) - set(starts)
            gone = branch_filter(fa, lambda t, p: (not p) and ("exists(" in t or "isfile(" in t or "is_file(" in t))
            contained = _os_error_contained(fa)

            def edge_ok(s_, d_, l_):
                if s_ in starts and l_ == "exc":
                    return False    # the creation itself failed: nothing was created
                if s_ in mv and l_ != "exc":
                    return False    # moved onto its scheme path: disposed of
                if l_ == "exc" and cfg.node(s_).kind == "test" and cfg.node(s_).ast is not None and \
                        all(A.call_attr(k_) in ("exists", "lexists", "isfile", "is_file") for k_ in A.calls_in(cfg.node(s_).ast)):
                    return False    # os.path.exists & co. answer False instead of raising
                return gone(s_, d_, l_) and contained(s_, d_, l_)

            r = cfg.reach(starts, removed=un, edge_ok=edge_ok, include_start=False) if starts else set()
            leaks = [x for x in (cfg.exit, cfg.raise_exit) if x in r]
            ok = bool(starts) and not leaks
            how = "returns" if cfg.exit in leaks else "fails (an I/O error while it is written or moved into place)"
            ck.ob(R, fa.key(c, "created-path-in-scheme"), ok,
                  "the scratch file is moved onto the key's link / version path or unlinked on every way out" if ok else
                  "%s %s `%s`, which is neither the key's link nor a version object, and can leave it behind when the method %s: the deleter "
                  "removes links and version objects only and forget_call selects by the call's file prefix, so the stray file keeps the function's "
                  "directory from being pruned and the function stays listed after all of its calls were forgotten"
                  % (m.name, what, A.short(p_ if p_ is not None else c, 60), how), fa.where(c))
    ck.ob(R, "%s::created-paths::scan" % FSDS, n_sites >= 2, "%d file-creating sites in the filesystem data source" % n_sites if n_sites >= 2 else
          "the filesystem data source creates fewer files than its link and its version object (%d sites found)" % n_sites, A.loc(cls, cls.node))


def _exit_callbacks_removing(ck, fa: FA, refers):
    """`<stack>.callback(F, ..)` registrations, <stack> bound by `with ExitStack() as <stack>`, whose callback unlinks the
    file `refers` recognises: F an unlink function given the path, a bound `path.unlink`, a parameterless lambda that
    unlinks it, or a repository function that unlinks its first parameter.  -> [(call, the with statement)]"""
    out = []
    for w_ in fa.stmts(ast.With):
        names = {it.optional_vars.id for it in w_.items if isinstance(it.optional_vars, ast.Name)
                 and isinstance(it.context_expr, ast.Call) and A.call_attr(it.context_expr) == "ExitStack"}
        if not names:
            continue
        for k in fa.calls("callback"):
            if not (isinstance(A.call_recv(k), ast.Name) and A.call_recv(k).id in names and fa.inside(k, w_) and k.args):
                continue
            f, rest = k.args[0], k.args[1:]
            removes = False
            if isinstance(f, ast.Lambda) and not f.args.args:
                for x in ast.walk(f.body):
                    if isinstance(x, ast.Call):
                        d = A.call_dotted(x) or ""
                        if (d in _UNLINK_FUNCS and x.args and refers(x.args[0], k)) or \
                                (A.call_attr(x) == "unlink" and isinstance(x.func, ast.Attribute) and not d.startswith("os.") and refers(x.func.value, k)):
                            removes = True
            elif isinstance(f, ast.Attribute) and f.attr == "unlink" and (A.dotted(f) or "") not in _UNLINK_FUNCS and refers(f.value, k):
                removes = True
            elif rest and refers(rest[0], k):
                d = A.dotted(f) or ""
                if d in _UNLINK_FUNCS:
                    removes = True
                else:
                    target = None
                    if isinstance(f, ast.Name):
                        target = ck.repo.try_func("%s.%s" % (fa.qual.split(".")[0], f.id))
                    elif isinstance(f, ast.Attribute) and isinstance(f.value, ast.Name) and fa.fi.cls is not None and f.value.id in ("self", "cls", fa.fi.cls.name):
                        target = fa.fi.cls.methods.get(f.attr)
                    if target is not None and target.node is not None:
                        ps = [p_ for p_ in target.params if p_ not in ("self", "cls")]
                        for x in A.body_calls(target.node):
                            d2 = A.call_dotted(x) or ""
                            if ps and ((d2 in _UNLINK_FUNCS and x.args and A.norm(_strip_path_wrappers(x.args[0])) == ps[0]) or
                                       (A.call_attr(x) == "unlink" and isinstance(x.func, ast.Attribute) and A.norm(x.func.value) == ps[0])):
                                removes = True
            if removes:
                out.append((k, w_))
    return out


def _os_error_contained(fa: FA):
    """edge_ok: an I/O failure raised inside the body of a `try` that has a handler for OSError (or broader) goes to the
    handlers of that try, not past them (the CFG sends an exception to every handler AND outward unless the handler is
    `except Exception` / bare)."""
    cfg = fa.cfg

    def broad(h):
        if h.type is None:
            return True
        ts = h.type.elts if isinstance(h.type, ast.Tuple) else [h.type]
        return any((A.dotted(t) or "").split(".")[-1] in _OS_ERRORS for t in ts)

    tries = [t for t in ast.walk(fa.node) if isinstance(t, ast.Try) and any(broad(h) for h in t.handlers)]

    def edge_ok(s, d, l):
        if l != "exc":
            return True
        sa_ = cfg.node(s).ast
        if sa_ is None or sa_ not in fa.pm and not isinstance(sa_, ast.stmt):
            return True
        for t in tries:
            if any(fa.inside(sa_, b) for b in t.body):
                da = cfg.node(d).ast
                if da is None:
                    return False
                if da in fa.pm and not fa.inside(da, t):
                    return False
        return True

    return edge_ok


def _walkers(ck, ls: FA):
    """The generators that enumerate a directory for list_keys_nonversioned: its nested functions, or -- when they were
    hoisted out -- the methods of the same class / functions of the same module it refers to (called directly, or picked
    into a variable that is called later) that contain a `yield`.  -> {name: FuncInfo}"""
    out = dict(ls.fi.nested)
    cls = ls.fi.cls

    def is_gen(fi):
        return fi is not None and fi.node is not None and any(isinstance(y, (ast.Yield, ast.YieldFrom)) for y in A.walk_body(fi.node))

    for n in A.walk_body(ls.node):
        if cls is not None and isinstance(n, ast.Attribute) and isinstance(n.ctx, ast.Load) and isinstance(n.value, ast.Name) \
                and n.value.id in ("self", "cls", cls.name) and n.attr in cls.methods and is_gen(cls.methods[n.attr]):
            out[n.attr] = cls.methods[n.attr]
        elif isinstance(n, ast.Name) and isinstance(n.ctx, ast.Load) and n.id not in out and not ls.df.is_local(n.id):
            fi = ck.repo.try_func("%s.%s" % (ls.fi.qual.split(".")[0], n.id))
            if is_gen(fi):
                out[n.id] = fi
    return out


def _walker_of_call(ls: FA, walkers, e, at_nodes=None):
    """the walker(s) a call runs: `walk()`, `self._walk(..)`, or a local that every reaching definition binds to a walker
    (`walker = self._a if recursive else self._b` ... `walker(..)`).  -> list of names (empty when `e` is no such call)"""
    if not isinstance(e, ast.Call):
        return []
    f = e.func
    if isinstance(f, ast.Attribute) and isinstance(f.value, ast.Name) and f.attr in walkers:
        return [f.attr]
    if isinstance(f, ast.Name):
        ids = at_nodes if at_nodes else ls.nodes(e)
        if f.id in walkers and not (ids and any(d.kind == "assign" for i in ids for d in ls.df.reaching(i, f.id))):
            return [f.id]
        names = []
        for i in ids:
            for alt in _alternatives(ls, f, i):
                if isinstance(alt, ast.Attribute) and isinstance(alt.value, ast.Name) and alt.attr in walkers:
                    names.append(alt.attr)
                elif isinstance(alt, ast.Name) and alt.id in walkers and alt.id != f.id:
                    names.append(alt.id)
                else:
                    return []
        return names
    return []


def _suffix_strip_sites(ck, ls: FA):
    """Statements of the listing (and its nested walkers) that cut a literal suffix off a name, by what they do:
    `x = x[:-K]` / `x[0:-K]` / `x[:-len('<lit>')]` reached only when `<...>.endswith('<lit>')` holds, or
    `x = x.removesuffix('<lit>')`.  -> [(FA, statement, keyed node, literal, characters cut, path conditions)]"""
    import re
    out = []
    for fn in [ls.fi] + list(_walkers(ck, ls).values()):
        f_ = ls if fn is ls.fi else FA(ck, fn)
        for st in f_.stmts(ast.Assign):
            v = st.value
            cut = lit = None
            if isinstance(v, ast.Subscript) and isinstance(v.slice, ast.Slice) and v.slice.step is None \
                    and (v.slice.lower is None or (isinstance(v.slice.lower, ast.Constant) and v.slice.lower.value == 0)):
                up = v.slice.upper
                o = None
                if isinstance(up, ast.UnaryOp) and isinstance(up.op, ast.USub):
                    o = up.operand
                elif isinstance(up, ast.BinOp) and isinstance(up.op, ast.Sub) and isinstance(up.left, ast.Call) and isinstance(up.left.func, ast.Name) \
                        and up.left.func.id == "len" and len(up.left.args) == 1 and A.norm(up.left.args[0]) == A.norm(v.value):
                    o = up.right        # x[: len(x) - K]
                if o is not None:
                    if isinstance(o, ast.Constant) and isinstance(o.value, int):
                        cut = o.value
                    elif isinstance(o, ast.Call) and isinstance(o.func, ast.Name) and o.func.id == "len" and len(o.args) == 1:
                        la = safe_expand(f_, o.args[0], st)
                        if A.const_str(la) is not None:
                            cut = len(A.const_str(la))
            elif isinstance(v, ast.Call) and A.call_attr(v) == "removesuffix" and len(v.args) == 1:
                la = safe_expand(f_, v.args[0], st)
                if A.const_str(la) is not None:
                    lit, cut = A.const_str(la), len(A.const_str(la))
            if cut is None:
                continue
            try:
                conds = f_.conditions(st) if f_.nodes(st) else None
            except AnalysisError:
                conds = None
            if lit is None:
                # the suffix the cut is conditioned on
                found = set()
                for c_ in (conds or []):
                    ms = [re.search(r"\.endswith\('(\.[^']*)'\)$", t) for (t, p) in c_ if p]
                    found.add(tuple(sorted({m.group(1) for m in ms if m})))
                if len(found) != 1 or len(next(iter(found))) != 1:
                    continue
                lit = next(iter(found))[0]
            n = st
            x = st
            while x is not None:
                x = f_.pm.get(x)
                if isinstance(x, ast.If) and any(isinstance(c_, ast.Call) and A.call_attr(c_) == "endswith" for c_ in ast.walk(x.test)):
                    n = x
                    break
            out.append((f_, st, n, lit, cut, conds))
    return out


def check_escape_inverse(ck, R):
    ls = FA(ck, FSDS + ".list_keys_nonversioned")
    ek = FA(ck, FSDS + "._escape_key")
    # what is replaced by what: `key.replace(OLD, NEW)` or `NEW.join(key.split(OLD))`, literals through temporaries
    pairs = []
    for c in ek.calls("replace"):
        if len(c.args) == 2:
            pairs.append([A.const_str(safe_expand(ek, a, c)) for a in c.args])
    for c in ek.calls("join"):
        inner = safe_expand(ek, c.args[0], c) if len(c.args) == 1 else None
        if isinstance(inner, ast.Call) and A.call_attr(inner) == "split" and len(inner.args) == 1 and isinstance(c.func, ast.Attribute):
            pairs.append([A.const_str(safe_expand(ek, inner.args[0], c)), A.const_str(safe_expand(ek, c.func.value, c))])
    if len(pairs) != 1:
        raise AnalysisError("%s: expected exactly one replace call, found %d" % (ek.qual, len(pairs)))
    esc = pairs[0]
    from urllib.parse import unquote as _uq
    oke = len(esc) == 2 and esc[0] == ":" and esc[1] is not None and _uq(esc[1]) == ":"
    # the listing must apply the exact inverse: urllib.parse.unquote (directly or through a helper of
    # this class); unquote_plus also rewrites '+', which the escape never produces
    decoders = set()
    def collect(fn_node, cls):
        for c in A.body_calls(fn_node):
            nm = A.call_attr(c)
            if nm in ("unquote", "unquote_plus", "unquote_to_bytes"):
                decoders.add(nm)
            elif isinstance(c.func, ast.Attribute) and isinstance(c.func.value, ast.Name) and c.func.value.id == "self" and nm in cls.methods and nm != "_escape_key":
                helper = cls.methods[nm]
                if any(A.call_attr(x) in ("unquote", "unquote_plus") for x in A.body_calls(helper.node)):
                    collect(helper.node, cls)
    for fn in _walkers(ck, ls).values():
        collect(fn.node, ls.fi.cls)
    ok_inv = oke and decoders == {"unquote"}
    ck.ob(R, ek.key(None, "escape"), ok_inv, "':' is escaped as a percent code that the listing decodes with unquote (the exact inverse)" if ok_inv else
          "key escaping %s is not inverted exactly by the listing (decoders used: %s): names containing '+' (versions like 1.4.0+build.7) come back altered"
          % (esc, sorted(decoders) or "none"), ek.where())


def check_strip_is_not_prefix_removal(ck, R):
    """`s.lstrip(X)` / `rstrip` / `strip` remove a *set of characters*, not a prefix: `'m/metrics:f'.lstrip('m/')`
    is 'etrics:f'.  In the modules that build and take apart storage keys and qualified names a strip call
    whose argument is anything but a single literal character is a prefix/suffix removal done wrong."""
    mods = ("storage_base", "storage_filesystem", "storage_memory", "reference", "serialization", "metadata", "memento")
    n = 0
    for mn in mods:
        for fi in ck.repo.module(mn).all_funcs():
            for c in A.body_calls(fi.node):
                if A.call_attr(c) in ("lstrip", "rstrip", "strip") and c.args:
                    n += 1
                    lit = A.const_str(c.args[0])
                    ok = lit is not None and len(lit) == 1
                    ck.ob(R, "%s::%s::strip-charset" % (fi.qual, A.head(c, 60)), ok,
                          "strips one literal character" if ok else
                          "`%s` removes every leading/trailing character that occurs in its argument, not the prefix/suffix itself: a name that "
                          "starts with one of those characters (module 'metrics' after prefix 'm/') comes back truncated" % A.short(c, 60), A.loc(fi, c))
    ck.ob(R, "strip-charset::scan", True, "%d strip-family calls with an argument in %s" % (n, list(mods)), "")


def check_listing_filters(ck, R):
    """Every filter of list_keys_nonversioned is applied inside the walkers, before an entry is
    counted against `limit`; nothing narrows the listing afterwards."""
    ls = FA(ck, FSDS + ".list_keys_nonversioned")
    walkers = _walkers(ck, ls)
    # a walker that was hoisted out of the listing receives what it used to capture: under which of its own parameter names
    # do the listing's `limit` / `endswith` / `file_prefix` arrive (identity for a closure)
    passed = {}
    for c in ls.calls():
        for w in _walker_of_call(ls, walkers, c):
            wp = [p_ for p_ in walkers[w].params if p_ not in ("self", "cls")]
            for (pn, a) in _bind(c, wp).items():
                if isinstance(a, ast.Name) and a.id in ls.fi.params:
                    passed.setdefault(w, {})[a.id] = pn
    for name, sub in walkers.items():
        f = FA(ck, sub)
        lim = passed.get(name, {}).get("limit", "limit")
        # the counter is the local that is compared with `limit`
        cmpd = {x.id for n_ in A.walk_body(sub.node) if isinstance(n_, ast.Compare) and lim in A.names_in(n_) for x in ast.walk(n_) if isinstance(x, ast.Name)} - {lim}
        counts = [s_ for s_ in f.stmts(ast.AugAssign) if isinstance(s_.target, ast.Name) and s_.target.id in cmpd]
        if not counts:
            continue
        for flt0 in ("endswith", "file_prefix"):
            flt = passed.get(name, {}).get(flt0, flt0)
            tests = [n.id for n in f.cfg.nodes if n.kind == "test" and flt in A.names_in(n.ast)]
            ok = bool(tests) and all(f.cfg.must_pass(tests, i) for c in counts for i in f.nodes(c))
            ck.ob(R, f.key(None, "filter-before-count:" + flt0), ok, "`%s` is applied before an entry counts against the limit" % flt0 if ok else
                  "in %s an entry is counted against `limit` before the `%s` filter is applied: list_mementos(limit=n) returns fewer than "
                  "min(n, live) entries when other files (custom metadata) share the directory" % (name, flt0), f.where())
    rets = ls.returns()
    post = []

    def walk_output(e, at_nodes, depth=0):
        """is `e` the complete output of a walker: walker() / list(walker()) / a local every definition of which is one"""
        if isinstance(e, ast.List) and not e.elts:
            return True
        if isinstance(e, ast.Call) and isinstance(e.func, ast.Name) and e.func.id in ("list", "tuple") and len(e.args) == 1 and not e.keywords:
            return walk_output(e.args[0], at_nodes, depth)
        if _walker_of_call(ls, walkers, e, at_nodes):
            return True
        if isinstance(e, ast.Name) and depth < 4:
            ds = {}
            for i in at_nodes:
                for d in ls.df.reaching(i, e.id):
                    ds[d.node] = d
            if not ds:
                return False
            for d in ds.values():
                if d.kind != "assign" or d.value is None or not walk_output(d.value, [d.node], depth + 1):
                    post.append(d.stmt if d.stmt is not None else e)
                    return False
            return True
        return False

    okp = bool(rets)
    for r in rets:
        v = r.value
        if v is None or (isinstance(v, ast.List) and not v.elts):
            continue
        if not ls.nodes(r):
            continue
        if not (isinstance(v, ast.Call) and A.call_attr(v) == "sorted" and isinstance(v.func, ast.Name) and len(v.args) == 1 and walk_output(v.args[0], ls.nodes(r))):
            okp = False
    post = [x for x in post if isinstance(x, ast.AST)]
    ck.ob(R, ls.key(None, "no-post-filter"), okp, "the walk result is only sorted" if okp else
          "the listing is narrowed after the walk (`%s`): the limit was already spent on entries that are filtered out afterwards" % A.short(post[0], 60) if post else
          "list_keys_nonversioned does not return sorted(entries)", ls.where(post[0] if post else None))


def check_override_writes(ck, R):
    ck.rule(R, "reads return the last value written: a memoize under a key override always writes the new bytes (the "
               "'already stored, reuse it' shortcut applies to content-addressed keys only)", 2)
    from .c07 import BLOB
    fa = FA(ck, BLOB + ".store")
    outs = [c for c in fa.calls("output") if A.dotted(A.call_recv(c)) == "data_source" or _xt(fa, A.call_recv(c), c) == "data_source"]
    exs = [c for c in fa.calls("exists_nonversioned")]
    if len(exs) != 1 or not outs:
        ck.ob(R, fa.key(None, "override-always-writes"), len(exs) == 0 and bool(outs), "no reuse shortcut at all" if len(exs) == 0 and outs else
              "BlobStrategy.store has %d existence tests / %d writes" % (len(exs), len(outs)), fa.where())
        return
    _check_reuse_shortcut(ck, fa, exs[0], outs, R)


def _check_reuse_shortcut(ck, fa: FA, ex, outs, R2):
    """The reuse shortcut of BlobStrategy.store, decided on what can run under assumptions about the two facts that
    matter (is there an override? does the content key exist?) -- whatever the tests look like: if statements, guard
    clauses, a flag local, a conditional expression choosing between "reuse" and "write" inside one statement."""
    from .effects import Assume, param_truth_atom, call_atom
    P_ = fa.fi.params
    ov_p = P_[2] if len(P_) > 2 else "key_override"
    EX = ("exists_nonversioned",)
    # what the data source hands back for a stored object is a versioned key, an object: a result variable that holds one is not None
    NN = ("get_versioned_key", "output")
    present = Assume(fa, param_truth_atom(ov_p, False, call_atom(EX, True)), nonnull=NN)
    absent = Assume(fa, param_truth_atom(ov_p, False, call_atom(EX, False)), nonnull=NN)
    with_ov = Assume(fa, param_truth_atom(ov_p, True), nonnull=NN)
    # no override, content key present: no write can run
    ok = not any(present.may_run(o) for o in outs)
    ck.ob(R2, fa.key(ex, "no-write-when-present"), ok, "output is reached only under an override or when the content key is absent" if ok else
          "a new object version is written although the content key exists and no override was given", fa.where(ex))
    # under an override the new bytes are always written (the override location is mutable: the last write must win):
    # no way to the normal exit avoids the statements that are certain to write
    must = []
    for o in outs:
        must += with_ov.must_run(o)
    ov_tests = [n for n in fa.cfg.nodes if n.kind == "test" and n.id in fa.cfg.reachable_nodes() and with_ov.truth(n.ast, n.id) is not None]
    okw = bool(must) and fa.cfg.exit not in with_ov.reach(removed=must)
    ck.ob(R2, fa.key(ov_tests[0].ast if ov_tests else None, "override-always-writes"), okw, "with a key override the object is always written" if okw else
          "with a key override store() can return without writing (the reuse shortcut also fires for override keys): a second result "
          "written under the same override key is dropped and reads return the first one", fa.where(ex))
    # content key present, no override: what is returned is get_versioned_key(<that content key>)
    live = present.reach()
    ex_keys = set()
    for i in fa.nodes(ex):
        ex_keys |= present.texts(ex.args[0], i) if ex.args else set()
    rets = [fa.cfg.node(i).ast for i in sorted(live) if fa.cfg.node(i).kind == "stmt" and isinstance(fa.cfg.node(i).ast, ast.Return)]
    okr = bool(rets) and bool(ex_keys)
    for x in rets:
        for i in present.live(x):
            for (leaf, n) in (present.cases(x.value, i) if x.value is not None else [(None, i)]):
                if not (isinstance(leaf, ast.Call) and A.call_attr(leaf) == "get_versioned_key" and len(leaf.args) == 1
                        and present.texts(leaf.args[0], n) == ex_keys):
                    okr = False
    first = rets[0] if rets else ex
    ck.ob(R2, fa.key(first, "reuse-existing"), okr, "the existing versioned key of the same key is returned" if okr else
          "the dedupe path does not return get_versioned_key(<content key>)", fa.where(first))
    # the key tested is the content key, and it is the key that is written when the test fails
    exarg_ok = bool(ex_keys)
    for i in fa.nodes(ex):
        for (leaf, n) in (absent.cases(ex.args[0], i) if ex.args else []):
            if "call:output_key_for_content_key" not in fa.df.deps(leaf, n):
                exarg_ok = False
    for o in outs:
        keyarg = o.args[0] if o.args else A.kwarg(o, "key")
        for i in absent.may_run(o):
            if keyarg is None or absent.texts(keyarg, i) != ex_keys:
                exarg_ok = False
    ck.ob(R2, fa.key(ex, "tests-content-key"), bool(exarg_ok), "the existence test is on the content key" if exarg_ok else
          "the existence test is not on the key that would be written", fa.where(ex))


def _refuses_suffixed(ck, fa: FA, names, suffix, depth=2) -> bool:
    """Assume the parameters `names` of `fa` hold a string that ends in `suffix`: can `fa` then not finish normally?  A call of a
    helper (resolved through the call graph) that cannot finish normally when handed such a name counts as a statement that
    raises."""
    from .effects import Assume

    def atom(e):
        if isinstance(e, ast.Call) and A.call_attr(e) == "endswith" and isinstance(A.call_recv(e), ast.Name) and A.call_recv(e).id in names \
                and suffix in A.strings_in(e):
            return True
        if isinstance(e, ast.Compare) and len(e.ops) == 1 and isinstance(e.ops[0], ast.Eq):
            # the same test as a slice comparison: key[-len(S):] == S / key[-N:] == S with N = len(S)
            for (a, b) in ((e.left, e.comparators[0]), (e.comparators[0], e.left)):
                if A.const_str(b) == suffix and isinstance(a, ast.Subscript) and isinstance(a.value, ast.Name) and a.value.id in names \
                        and isinstance(a.slice, ast.Slice) and a.slice.upper is None and a.slice.step is None \
                        and isinstance(a.slice.lower, ast.UnaryOp) and isinstance(a.slice.lower.op, ast.USub):
                    o = a.slice.lower.operand
                    if (isinstance(o, ast.Constant) and o.value == len(suffix)) or \
                            (isinstance(o, ast.Call) and isinstance(o.func, ast.Name) and o.func.id == "len" and len(o.args) == 1 and A.const_str(o.args[0]) == suffix):
                        return True
        if isinstance(e, ast.Compare) and len(e.ops) == 1 and isinstance(e.ops[0], (ast.Is, ast.IsNot)) and isinstance(e.left, ast.Name) and e.left.id in names \
                and A.is_none(e.comparators[0]):
            return isinstance(e.ops[0], ast.IsNot)   # a key that ends in the suffix is a string
        return None
    asm = Assume(fa, atom)
    removed = set()
    if depth > 0:
        for c in fa.calls():
            if not any(isinstance(a_, ast.Name) and a_.id in names for a_ in list(c.args) + [k.value for k in c.keywords]):
                continue
            cands, _how = ck.cg.resolve(c, fa.fi)
            for callee in cands or []:
                if callee is fa.fi or callee.node is None:
                    continue
                bound = _bind(c, [p_ for p_ in callee.params if p_ not in ("self", "cls")]) or {}
                sub_names = {p_ for (p_, a_) in bound.items() if isinstance(a_, ast.Name) and a_.id in names}
                if sub_names and _refuses_suffixed(ck, FA(ck, callee), sub_names, suffix, depth - 1):
                    removed |= set(fa.nodes(c))
    live = asm.reach(removed=removed)
    return fa.cfg.exit not in live


def check_metadata_marker_reserved(ck, R):
    """Custom metadata of a call is kept under `<entry>.metadata.<key>`, or as the marker `<entry>.metadata.<key><suffix>` when the
    value lives beside the data object.  A caller-chosen key that itself ends in that suffix names the marker of another key:
    writing one erases or misreads the other, which no dictionary does.  Every storage backend that keeps metadata therefore
    refuses such keys, in write_metadata and in read_metadata alike, so that all backends still answer alike (D43)."""
    ck.rule(R, "metadata keys that end in the stored-with-data marker suffix are refused by every backend", 4)
    gk = FA(ck, "storage_base.DataSourceMetadataSource._get_metadata_key")
    # the text chosen by the stored-with-data flag: the non-empty arm of a conditional on a parameter (expression or statement)
    sufs = set()
    for n_ in ast.walk(gk.node):
        if isinstance(n_, ast.IfExp) and set(A.names_in(n_.test)) & set(gk.fi.params):
            sufs |= {x.value for x in (n_.body, n_.orelse) if isinstance(x, ast.Constant) and isinstance(x.value, str) and x.value}
        if isinstance(n_, ast.If) and set(A.names_in(n_.test)) & set(gk.fi.params):
            for st_ in n_.body + n_.orelse:
                if isinstance(st_, (ast.Assign, ast.AugAssign)) and isinstance(st_.value, ast.Constant) and isinstance(st_.value.value, str) and st_.value.value:
                    sufs.add(st_.value.value)
    if not sufs:
        sufs = {x for x in A.strings_in(gk.node) if x.startswith(".") and "{" not in x and len(x) > 1 and not x.endswith(".")}
    sufs = sorted(sufs)
    ck.need(len(sufs) == 1, "_get_metadata_key: cannot identify the stored-with-data marker suffix (%s)" % sufs)
    suffix = sufs[0]
    n = 0
    for cls in storage_backend_classes(ck):
        for mname in ("write_metadata", "read_metadata"):
            m = cls.methods.get(mname)
            if m is None:
                continue
            fa = FA(ck, m)
            # a backend that keeps nothing (the null storage) has nothing to confuse
            if not [st for st in fa.stmts() if not isinstance(st, (ast.Pass, ast.Return, ast.Expr)) or (isinstance(st, ast.Return) and st.value is not None and not A.is_none(st.value))
                    or (isinstance(st, ast.Expr) and not isinstance(st.value, ast.Constant))]:
                continue
            kp = m.params[2] if len(m.params) > 2 else "key"
            n += 1

            ok = _refuses_suffixed(ck, fa, {kp}, suffix)
            ck.ob(R, fa.key(None, "marker-suffix-refused"), ok, "a key ending in %r is refused" % suffix if ok else
                  "%s.%s accepts a metadata key that ends in %r, the suffix under which the filesystem metadata source records that the value of the "
                  "key WITHOUT the suffix lives beside the data object: on that backend writing 'log' removes the value of 'log%s', and reading "
                  "'log' after writing only 'log%s' takes it for the marker; the memory backend keeps the two keys apart, so the backends "
                  "disagree" % (cls.name, mname, suffix, suffix, suffix), fa.where())
    ck.need(n >= 4, "expected write_metadata / read_metadata on at least two storing backends, found %d methods" % n)
    # the listing of a function's mementos selects files by a suffix: a metadata key ending in that suffix has a file the
    # listing takes for a memento (D48)
    lm = FA(ck, "storage_base.DataSourceMetadataSource.list_mementos")
    lsuf = None
    for c in lm.calls("list_keys_nonversioned"):
        v = A.kwarg(c, "endswith") or (c.args[4] if len(c.args) > 4 else None)
        if v is not None and lm.nodes(c):
            e = lm.expand(v, lm.nodes(c)[0])
            if isinstance(e, ast.Constant) and isinstance(e.value, str):
                lsuf = e.value
    if lsuf is None:
        # the suffix may sit in a module constant the front end did not fold: any string ending '.json' in the listing
        cands = [x for x in A.strings_in(lm.node) if x.startswith(".") and x.endswith(".json")]
        lsuf = cands[0] if len(cands) == 1 else None
    ck.need(lsuf is not None, "list_mementos: cannot identify the suffix by which memento files are selected")
    for cls in storage_backend_classes(ck):
        for mname in ("write_metadata", "read_metadata"):
            m = cls.methods.get(mname)
            if m is None:
                continue
            fa = FA(ck, m)
            if not [st for st in fa.stmts() if not isinstance(st, (ast.Pass, ast.Return, ast.Expr)) or (isinstance(st, ast.Return) and st.value is not None and not A.is_none(st.value))
                    or (isinstance(st, ast.Expr) and not isinstance(st.value, ast.Constant))]:
                continue
            kp = m.params[2] if len(m.params) > 2 else "key"
            ok = _refuses_suffixed(ck, fa, {kp}, lsuf)
            ck.ob(R, fa.key(None, "listing-suffix-refused"), ok, "a key ending in %r is refused" % lsuf if ok else
                  "%s.%s accepts a metadata key that ends in %r, the suffix by which the filesystem backend selects the memento files of a function: "
                  "list_mementos decodes the file of such a key as a memento (an error out of the listing, or a phantom memento), while the "
                  "memory backend lists nothing of the kind" % (cls.name, mname, lsuf), fa.where())


def check_listing_limit(ck, R):
    """`limit` bounds the number of keys a listing yields, for every n >= 0.  A walk that counts an entry, yields it and only
    then compares the count with the limit never stops for n = 0 (the memory backend slices, so it returns nothing): a
    non-positive limit is answered up front, or the comparison comes before the yield / is an inequality (D47)."""
    ck.rule(R, "a listing limit of zero yields nothing on every backend", 1)
    fa = FA(ck, FSDS + ".list_keys_nonversioned")
    lim = "limit"
    walkers = [fa] + [FA(ck, w) for w in _walkers(ck, fa).values()]
    eq_after_yield = []
    for w in walkers:
        for y in [n for n in ast.walk(w.node) if isinstance(n, (ast.Yield, ast.YieldFrom))]:
            st = w.stmt_of(y)
            if st is None or not w.nodes(st):
                continue
            # a test `count == limit` that is only reached after the element was yielded
            for t in [n for n in w.cfg.nodes if n.kind == "test" and n.ast is not None]:
                cmp_ = [c for c in ast.walk(t.ast) if isinstance(c, ast.Compare) and len(c.ops) == 1 and isinstance(c.ops[0], ast.Eq)
                        and any(isinstance(x, ast.Name) and x.id == lim or (isinstance(x, ast.Name) and x.id != lim and w.fi is not fa.fi and x.id in w.fi.params) for x in ast.walk(c))
                        and any(isinstance(x, ast.Name) and x.id == lim for x in ast.walk(c))]
                if cmp_ and t.id in w.cfg.reach(w.nodes(st)) and not w.cfg.must_pass([t.id], w.nodes(st)[0]):
                    eq_after_yield.append((w, t))
    # answered up front: under the assumption `limit <= 0` (and limit is not None) the listing returns before any walk starts
    from .effects import Assume

    def atom(e):
        if isinstance(e, ast.Compare) and len(e.ops) == 1 and isinstance(e.left, ast.Name) and e.left.id == lim:
            op, r = e.ops[0], e.comparators[0]
            if isinstance(r, ast.Constant) and r.value is None:
                return isinstance(op, ast.IsNot) if isinstance(op, (ast.Is, ast.IsNot)) else None
            if isinstance(r, ast.Constant) and isinstance(r.value, int):
                # limit = 0
                return {ast.LtE: 0 <= r.value, ast.Lt: 0 < r.value, ast.Eq: 0 == r.value, ast.GtE: 0 >= r.value, ast.Gt: 0 > r.value, ast.NotEq: 0 != r.value}.get(type(op))
        if isinstance(e, ast.Name) and e.id == lim:
            return False   # truthiness of 0
        return None
    asm = Assume(fa, atom)
    live = asm.reach()
    wdict = _walkers(ck, fa)
    walk_sites = [i for c in fa.calls() if _walker_of_call(fa, wdict, c) for i in fa.nodes(c)]
    upfront = bool(walk_sites) and not any(i in live for i in walk_sites)
    ok = upfront or not eq_after_yield
    ck.ob(R, fa.key(None, "limit-zero-yields-nothing"), ok, "a non-positive limit is answered before any entry is yielded" if ok else
          "the walk counts an entry, yields it and only then tests `count == limit`: with limit=0 the test never holds and every key is "
          "listed, while the memory backend returns nothing for the same request", fa.where())


# ---- side tables of the write-through cache follow the store ---------------------------------------------------------
_SIDE_MODULES = ("storage_base", "storage_filesystem", "storage_memory", "storage")


class _SideTable:
    """A keyed table besides the modelled slots of the memory cache (or a table a cached backend class has grown) from
    which some function ANSWERS: a value it returns, or the choice of which value it returns, depends on what the table
    holds for a key."""

    def __init__(self, cls, name, cache_owned):
        from .memo import Table
        self.cls, self.name, self.cache_owned = cls, name, cache_owned
        self.t = Table(cls.qual, name, "self")
        self.readers = []      # qualified names of the functions that answer from it
        self._rx = re.compile(r"\.%s\b" % re.escape(name))

    @property
    def label(self):
        return "%s.%s" % (self.cls.name, self.name)

    def mentioned(self, node) -> bool:
        return any(isinstance(n, ast.Attribute) and n.attr == self.name for n in ast.walk(node))

    def in_text(self, text) -> bool:
        return bool(self._rx.search(text))

    def in_deps(self, deps) -> bool:
        return any(d.startswith("attr:") and d.endswith("." + self.name) for d in deps)


def _side_answers(fa: FA, tb: _SideTable, reads) -> bool:
    """does a value `fa` returns -- or which of its returns is taken -- depend on a keyed look-up in the table?"""
    if not reads:
        return False
    for r in fa.returns():
        if r.value is None or not fa.nodes(r):
            continue
        if any(fa.inside(n, r) for (_st, _k, n) in reads):
            return True
        try:
            if tb.in_deps(fa.deps(r.value)):
                return True
            conds = fa.conditions(r)
        except AnalysisError:
            continue
        if conds and any(tb.in_text(t_) for c_ in conds for (t_, _p) in c_):
            return True
    return False


def _side_tables(ck, cm):
    """The answering side tables: fields of the cache class outside the roles of the cache model (resident map, weak
    table, recency queue, usage counter, budget, locks), and fields of the cached backend classes that the reference
    inventory does not know."""
    from ..inline import new_tables
    from .memo import _uses
    repo = ck.repo
    roles = {cm.map, cm.queue, cm.counter, cm.budget} | ({cm.refs} if cm.refs else set()) | {f for (f, _k) in cm.locks}
    cands = []

    def stored_fields(cls):
        out = set(cls.fields)
        for m in cls.methods.values():
            for n in ast.walk(m.node):
                if isinstance(n, ast.Attribute) and isinstance(n.ctx, ast.Store) and isinstance(n.value, ast.Name) and n.value.id in ("self", "cls"):
                    out.add(n.attr)
        return out

    for f in sorted(stored_fields(cm.cls) - roles):
        cands.append(_SideTable(cm.cls, f, True))
    new = new_tables(repo)
    base = repo.cls(BACKEND_BASE)
    for cls in [base] + [c for c in repo.subclasses(base, strict=True)]:
        for f in sorted(stored_fields(cls)):
            if "%s:self.%s" % (cls.qual, f) in new or "%s:%s" % (cls.qual, f) in new:
                cands.append(_SideTable(cls, f, False))
    out = []
    for tb in cands:
        for fi in repo.all_funcs():
            if fi.parent is not None or fi.node is None or fi.module.name not in _SIDE_MODULES or not tb.mentioned(fi.node):
                continue
            fa = FA(ck, fi)
            reads, _w, _rm = _uses(fa, tb.t)
            if _side_answers(fa, tb, reads):
                tb.readers.append(fi.qual)
        if tb.readers:
            out.append(tb)
    return out


def _side_excuse(tb: _SideTable):
    """branch literals under which an event may leave the table alone: the key is not in it; the table does not exist or is
    empty; there is no cache at all (for a table of the cache); the backend is read-only (nothing was written)"""
    absent = re.compile(r" in [\w\.]*\b%s$" % re.escape(tb.name))
    # ... or the table itself does not exist / holds nothing (`T is None`, `not T`, `len(T) == 0`)
    none = re.compile(r"^[\w\.]*\b%s is None$" % re.escape(tb.name))
    empty = re.compile(r"^(?:[\w\.]*\b%s|len\([\w\.]*\b%s\)|bool\([\w\.]*\b%s\))$" % ((re.escape(tb.name),) * 3))

    def excuse(t, p):
        return ((not p) and bool(absent.search(t))) or (p and bool(none.search(t))) or ((not p) and bool(empty.search(t))) \
            or (tb.cache_owned and _no_cache(t, p)) or (p and t == "self.read_only")
    return excuse


def _side_touch_nodes(ck, cm, fa: FA, tb: _SideTable, tainted, removal_only, allow_sweep, depth, partial=None):
    """CFG nodes of `fa` that bring the table up to date for the key the event is about: a removal (or, unless
    `removal_only`, a store) under a key derived from the parameters `tainted`; the table emptied or rebound as a whole;
    (`allow_sweep`) a loop over the table that removes what it selects; a call of a method of the cache / the backend
    that does one of these on each of its normal paths, for the arguments it is handed here."""
    from .memo import _uses
    _r, w, rm = _uses(fa, tb.t)
    patoms = {"param:" + p_ for p_ in tainted}
    out = []
    for (st, key, node) in rm + ([] if removal_only else w):
        ids = fa.nodes(node)
        if not ids or not fa.unconditional(node):
            continue
        if key is None:
            if isinstance(node, ast.Call) and A.call_attr(node) == "clear":
                out += ids
            continue
        swept = False
        if allow_sweep:
            # a loop over (a selection from) the table that removes what it visits: the loop as a whole is the removal
            lp = fa.enclosing(node, (ast.For, ast.While))
            while lp is not None and not swept:
                head = lp.iter if isinstance(lp, ast.For) else lp.test
                try:
                    over = tb.mentioned(head) or tb.in_deps(fa.deps(head))
                except AnalysisError:
                    over = tb.mentioned(head)
                if over:
                    out += fa.nodes(lp)
                    swept = True
                lp = fa.enclosing(lp, (ast.For, ast.While))
        if swept:
            continue
        try:
            keyed = bool(set(fa.deps(key)) & patoms)
        except AnalysisError:
            keyed = False
        if keyed:
            out += ids
    # the table rebound as a whole: emptied, or rebuilt without what is to go
    for st in fa.stmts((ast.Assign, ast.AnnAssign)):
        tg = st.targets if isinstance(st, ast.Assign) else [st.target]
        if any(isinstance(t_, ast.Attribute) and t_.attr == tb.name for t_ in tg) and getattr(st, "value", None) is not None:
            out += fa.nodes(st)
    # `T -= {key}` (a removal) / `T |= {key}` (a store)
    for st in fa.stmts(ast.AugAssign):
        if isinstance(st.target, ast.Attribute) and st.target.attr == tb.name and fa.nodes(st) and (isinstance(st.op, ast.Sub) or not removal_only):
            try:
                if set(fa.deps(st.value)) & patoms:
                    out += fa.nodes(st)
            except AnalysisError:
                pass
    if depth > 0:
        base = ck.repo.cls(BACKEND_BASE)
        for c in fa.calls():
            if not fa.nodes(c) or not fa.unconditional(c):
                continue
            try:
                cands, _how = ck.cg.resolve(c, fa.fi)
            except Exception:  # noqa
                cands = []
            cands = [m for m in (cands or []) if m.node is not None and m is not fa.fi and m.cls is not None
                     and (m.cls is cm.cls or ck.repo.is_subclass(m.cls, base) or m.cls is tb.cls)]
            if not cands and A.call_attr(c) in cm.cls.methods and _xt(fa, A.call_recv(c), c).endswith("._memory_cache"):
                cands = [cm.cls.methods[A.call_attr(c)]]
            if not cands:
                continue
            good = True
            for m in cands:
                bound = _bind(c, m.params)
                sub = set()
                for (pn, a) in bound.items():
                    try:
                        if set(fa.deps(a, fa.nodes(c)[0])) & patoms:
                            sub.add(pn)
                    except AnalysisError:
                        pass
                if not _side_always(ck, cm, m, tb, sub, removal_only, allow_sweep, depth - 1, partial):
                    good = False
            if good:
                out += fa.nodes(c)
    return out


def _side_always(ck, cm, fi, tb, tainted, removal_only, allow_sweep, depth, partial=None) -> bool:
    """does every way through `fi` to its normal exit bring the table up to date (see _side_touch_nodes)?"""
    fa = FA(ck, fi)
    nodes = _side_touch_nodes(ck, cm, fa, tb, tainted, removal_only, allow_sweep, depth, partial)
    edge_ok = branch_filter(fa, _side_excuse(tb))
    ok = bool(nodes) and fa.cfg.exit not in fa.cfg.reach([fa.cfg.entry], removed=nodes, edge_ok=edge_ok)
    if not ok and nodes and partial is not None:
        partial.append((fa, _bypass_site(fa, nodes, edge_ok)))
    return ok


def check_side_tables(ck, cm: CacheModel, R):
    """The memory cache is a write-through cache: whatever it holds about a call is what the store holds.  The cache
    model knows the resident map and the weak table; every OTHER keyed table from which an answer is taken -- a set of
    calls known to be absent, a second index of values, ... -- is held to the same two clauses:

      refreshed-on-write   every writable way through StorageBackendBase.memoize brings the table up to date for the
                           memoized call (in memoize itself or in MemoryCache.put, on EACH of its paths -- the early
                           exits for a value that does not fit included): what the table said about the call before the
                           write is not what the store holds afterwards;
      dropped-on-forget    what the write event enters into the table, every forget_* removes (forget_call under the
                           call's key, forget_function / forget_everything by a sweep or wholesale).
    """
    ck.rule(R, "side tables of the cache follow the store: a keyed table from which an answer is taken is brought up to date for the "
               "call on every path of the write-through, and what the write-through enters there every forget_* removes", 1)
    tables = _side_tables(ck, cm)
    base = ck.repo.cls(BACKEND_BASE)
    memo = FA(ck, BACKEND_BASE + ".memoize")
    for tb in tables:
        who = ", ".join(q.split(".", 1)[-1] for q in tb.readers[:2])
        # refreshed-on-write
        tainted = {"memento"} & set(memo.fi.params) or {p_ for p_ in memo.fi.params if p_ != "self"}
        partial = []
        nodes = _side_touch_nodes(ck, cm, memo, tb, tainted, False, False, 3, partial)
        edge_ok = branch_filter(memo, _side_excuse(tb))
        ok = bool(nodes) and memo.cfg.exit not in memo.cfg.reach([memo.cfg.entry], removed=nodes, edge_ok=edge_ok)
        (wfa, wsite) = partial[-1] if partial else (memo, _bypass_site(memo, nodes, edge_ok))
        ck.ob(R, wfa.key(None, "refreshed-on-write:" + tb.label), ok,
              "memoize brings %s up to date for the memoized call on every writable path" % tb.label if ok else
              "%s can finish (`%s`) without bringing %s up to date for the call that is being memoized, while %s answers from that table: "
              "what the table said about the call before the write (not stored / an earlier value) is still the answer after it, so reads do "
              "not return the last value written" % (wfa.qual.split(".", 1)[-1], A.short(wsite, 40) if wsite is not None else "end of body", tb.label, who),
              wfa.where(wsite))
        # dropped-on-forget: only for what the write event enters
        from .memo import _uses
        chain = [memo.fi, cm.insert] + [m for m in cm.cls.methods.values() if any(cm.is_self_call(c, m) for c in A.body_calls(cm.insert.node))]
        positive = any(_uses(FA(ck, fi), tb.t)[1] for fi in chain if tb.mentioned(fi.node))
        if not positive:
            continue
        for name in ("forget_call", "forget_function", "forget_everything"):
            m = ck.repo.find_method(tb.cls if not tb.cache_owned else base, name) or base.methods.get(name)
            fa = FA(ck, m)
            tainted = {p_ for p_ in fa.fi.params if p_ != "self"}
            partial = []
            sweep = name != "forget_call"
            nodes = _side_touch_nodes(ck, cm, fa, tb, tainted, True, sweep, 3, partial)
            edge_ok = branch_filter(fa, _side_excuse(tb))
            ok = bool(nodes) and fa.cfg.exit not in fa.cfg.reach([fa.cfg.entry], removed=nodes, edge_ok=edge_ok)
            if not ok and not partial and tb.cache_owned and name in cm.cls.methods:
                partial.append((FA(ck, cm.cls.methods[name]), None))
            (wfa, wsite) = partial[-1] if partial else (fa, _bypass_site(fa, nodes, edge_ok))
            ck.ob(R, wfa.key(None, "dropped-on-forget:" + tb.label), ok,
                  "%s removes what the write-through entered into %s" % (name, tb.label) if ok else
                  "%s can finish without removing from %s what the write-through entered there for the forgotten scope, while %s answers from "
                  "that table: something forgotten is answered again" % (wfa.qual.split(".", 1)[-1], tb.label, who), wfa.where(wsite))
    ck.ob(R, "side-tables::scan", True, "answering side tables of the cache / the cached backends: %s" % ([t.label for t in tables] or "none"), "")



STORAGE_MODULES = ("storage_base", "storage_filesystem", "storage_memory", "storage")
_ONE_PASS_TYPES = ("Iterable", "Iterator", "Generator", "AsyncIterable", "AsyncIterator")
_NOT_CONSUMING = ("isinstance", "len", "id", "type", "bool", "hasattr", "callable", "repr", "cast")


def _only_iterable(annotation) -> bool:
    """the annotation promises no more than "can be iterated": Iterable[..] / Iterator[..] / Generator[..], bare or
    qualified, possibly Optional"""
    t = (annotation or "").replace(" ", "")
    while t.startswith("Optional[") or t.startswith("typing.Optional["):
        t = t[t.index("[") + 1:-1]
    head = t.split("[")[0].split(".")[-1]
    return head in _ONE_PASS_TYPES


def check_iterable_single_pass(ck, R):
    """A parameter of the storage layer that is only promised to be iterable (annotated Iterable / Iterator / Generator) may
    be a generator: it can be gone through ONCE.  A second consuming use that is reachable from a first one sees an empty
    sequence -- is_all_memoized then asks the store about no call at all and answers True.  A consuming use is: the
    iterable of a for loop / comprehension, an argument of a call (other than isinstance / len / ...), an operand of `in`,
    `yield from`, unpacking, or handing it out (return / yield).  `p = list(p)` (or tuple / sorted, under the same or
    another name) re-binds: uses of the materialised sequence do not count.  A plain alias `q = p` is followed."""
    ck.rule(R, "a parameter of the storage layer that is only promised to be Iterable is gone through at most once on every path "
               "(or materialised first)", 1)
    seen = 0
    for mod in STORAGE_MODULES:
        try:
            module = ck.repo.module(mod)
        except (AnalysisError, KeyError):
            continue
        for fi in module.all_funcs():
            ps = [p_ for p_ in fi.params if _only_iterable(fi.param_annotation(p_))]
            if not ps or fi.node is None:
                continue
            fa = FA(ck, fi)
            for p_ in ps:
                seen += 1
                bad = _second_pass(fa, p_)
                ok = bad is None
                ck.ob(R, fa.key(None, "single-pass:" + p_), ok,
                      "`%s` (only promised to be iterable) is gone through at most once on every path" % p_ if ok else
                      "`%s` is annotated %s, so it may be a generator, yet `%s` goes through it again after `%s` did: the second pass sees nothing "
                      "(a query over the calls then asks about no call at all and answers as if all were memoized) -- materialise it first "
                      "(`%s = list(%s)`)" % (p_, fi.param_annotation(p_), A.short(bad[1], 50), A.short(bad[0], 50), p_, p_),
                      fa.where(bad[1] if bad is not None else None))
    ck.need(seen >= 1, "no Iterable-annotated parameter found in the storage layer (anchor lost)")


def _second_pass(fa: FA, param):
    """(statement of a first consuming use, statement of a later one reachable from it) or None"""
    def raw(name_node, nid, depth=0) -> bool:
        """may the name hold the parameter's own (un-materialised) iterable at CFG node nid?"""
        for d in fa.df.reaching(nid, name_node.id):
            if d.kind == "param" and d.name == param:
                return True
            if d.kind == "assign" and isinstance(d.value, ast.Name) and depth < 3 and d.node >= 0 and d.value.id != name_node.id and raw(d.value, d.node, depth + 1):
                return True
        return False

    def alias_names(name, nid, depth=0):
        out = {name}
        for d in fa.df.reaching(nid, name):
            if d.kind == "assign" and isinstance(d.value, ast.Name) and depth < 3 and d.node >= 0 and d.value.id != name:
                out |= alias_names(d.value.id, d.node, depth + 1)
        return out

    cfg_ = fa.cfg
    memo_r = {}

    def unmaterialised_way(n, i) -> bool:
        """is there a way from the entry to node i on which the name still holds the un-materialised iterable: no assignment of
        something else to it (or to the name it is an alias of) on the way, and no branch edge taken that says it is a list /
        tuple / ... (`isinstance(p, (list, tuple))` true: such a value can be gone through again)"""
        names = frozenset(alias_names(n.id, i))
        if names not in memo_r:
            kills = set()
            for (nid, ds) in fa.df.gen.items():
                for d in ds:
                    if d.name in names and not (d.kind == "assign" and isinstance(d.value, ast.Name) and d.value.id in names):
                        kills.add(nid)
            concrete = branch_filter(fa, lambda t, p: p and any(t.startswith("isinstance(%s, " % x) for x in names))
            r = cfg_.reach([cfg_.entry], removed=kills, edge_ok=concrete)
            memo_r[names] = (r, kills, concrete)
        (r, kills, concrete) = memo_r[names]
        if i in r:
            return True
        return i in kills and any(s_ in r and concrete(s_, i, l_) for (s_, l_) in cfg_.pred[i])

    uses = []       # (name node, CFG ids, repeated?, loop whose iterable it is)
    for n in A.walk_body(fa.node):
        if not (isinstance(n, ast.Name) and isinstance(n.ctx, ast.Load)):
            continue
        ids = fa.nodes(n)
        if not ids or not any(raw(n, i) and unmaterialised_way(n, i) for i in ids):
            continue
        par = fa.pm.get(n)
        if isinstance(par, ast.Starred):
            par = fa.pm.get(par)
        own_loop, consuming, repeated = None, False, False
        if isinstance(par, (ast.For, ast.AsyncFor)) and par.iter is n:
            consuming, own_loop = True, par
        elif isinstance(par, ast.comprehension) and par.iter is n:
            consuming = True
        elif isinstance(par, ast.Call) and par.func is not n:
            f = par.func
            d_ = A.dotted(f) or ""
            # printing / logging / formatting shows the object, it does not go through it
            shown = d_.split(".")[0] in ("log", "logger", "logging", "warnings") or d_ == "print" or (isinstance(f, ast.Attribute) and f.attr == "format")
            consuming = not (isinstance(f, ast.Name) and f.id in _NOT_CONSUMING) and not shown
        elif isinstance(par, ast.keyword):
            consuming = True
        elif isinstance(par, ast.Compare) and n in par.comparators and any(isinstance(o, (ast.In, ast.NotIn)) for o in par.ops):
            consuming = True
        elif isinstance(par, (ast.YieldFrom, ast.Yield, ast.Return)):
            consuming = True
        elif isinstance(par, ast.Assign) and par.value is n and any(isinstance(t, (ast.Tuple, ast.List)) for t in par.targets):
            consuming = True
        if not consuming:
            continue
        # evaluated once per element of something else: not the first iterable of a comprehension, or inside a lambda
        x = n
        while x is not None and not isinstance(x, ast.stmt):
            up = fa.pm.get(x)
            if isinstance(up, ast.Lambda):
                repeated = True
            if isinstance(up, (ast.ListComp, ast.SetComp, ast.GeneratorExp, ast.DictComp)):
                first = up.generators[0].iter
                if not fa.inside(n, first):
                    repeated = True
            x = up
        uses.append((n, ids, repeated, own_loop))
    for (n, ids, repeated, own_loop) in uses:
        if repeated:
            return (fa.stmt_of(n) or n, fa.stmt_of(n) or n)
    cfg = fa.cfg
    for (n1, ids1, _r, loop1) in uses:
        for i in ids1:
            def edge_ok(s_, d_, l_, i=i, loop1=loop1):
                # the iterable of a for loop is evaluated when the loop is entered, not per iteration
                if loop1 is not None and d_ == i and s_ != i:
                    a_ = cfg.node(s_).ast
                    if s_ == i or (a_ is not None and a_ is not loop1 and fa.inside(a_, loop1)):
                        return False
                return True
            r = cfg.reach([i], edge_ok=edge_ok, include_start=False)
            for (n2, ids2, _r2, _l2) in uses:
                if n2 is n1:
                    if i in r:
                        return (fa.stmt_of(n1) or n1, fa.stmt_of(n1) or n1)
                    continue
                if any(j in r or j == i for j in ids2):
                    # two uses in one statement / a later use reachable from this one
                    if all(j == i for j in ids2) and n2.lineno * 10000 + n2.col_offset < n1.lineno * 10000 + n1.col_offset:
                        continue
                    return (fa.stmt_of(n1) or n1, fa.stmt_of(n2) or n2)
    return None


def check(ck):
    from .memo import check_new_memo_tables
    ck.run(check_metadata_marker_reserved, ck, "C05.R4")
    ck.run(check_listing_limit, ck, "C05.R8")
    from .c07 import check_override_namespace
    ck.rule("C05.R7", "caller-chosen override keys stay outside the areas the store keeps for itself (content objects, metadata tree)", 3)
    ck.run(check_override_namespace, ck, "C05.R7")
    ck.run(check_new_memo_tables, ck, "C05.M1", ('storage_base', 'storage_filesystem', 'storage_memory'))
    cm = CacheModel(ck)
    ck.run(check_override_writes, ck, "C05.R6")
    ck.run(check_listing_filters, ck, "C05.R5")
    ck.run(check_keying, ck, "C05.R1")
    ck.run(check_forget_scope, ck, cm)
    ck.run(check_delete_enumerates_versions, ck, "C05.R2")
    ck.run(check_metadata_single_form, ck, "C05.R4")
    ck.run(check_cache_reads_own_key, ck, cm, "C05.R4")
    ck.run(check_cache_fill_only_for_held_memento, ck, cm, "C05.R4")
    ck.run(check_queries_effect_free, ck, "C05.R3")
    ck.run(check_cache_coherence, ck, cm)
    ck.run(check_side_tables, ck, cm, "C05.R9")
    ck.run(check_iterable_single_pass, ck, "C05.R10")
    ck.run(check_path_scheme, ck)
