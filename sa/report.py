"""Obligation bookkeeping, evidence files, known findings and exit codes."""
import json
import os
import time
from typing import Dict, List, Optional

from .loader import AnalysisError

VERIF = os.path.dirname(os.path.dirname(os.path.abspath(__file__)))
EVIDENCE_DIR = os.path.join(VERIF, "evidence")
KNOWN_FILE = os.path.join(VERIF, "known_findings.json")


class Ob:
    __slots__ = ("rule", "key", "verdict", "msg", "where")

    def __init__(self, rule, key, verdict, msg, where):
        self.rule = rule
        self.key = key
        self.verdict = verdict  # ok | violation | note
        self.msg = msg
        self.where = where

    def as_dict(self):
        return {"rule": self.rule, "key": self.key, "verdict": self.verdict, "msg": self.msg, "where": self.where}


class Checker:
    """Collects the obligations of one property run."""

    def __init__(self, prop: str, repo, cg=None, tier="quick", exc_mode="explicit"):
        self.prop = prop
        self.repo = repo
        self._cg = cg
        self.tier = tier
        self.exc_mode = exc_mode
        self.obs: List[Ob] = []
        self.expected: Dict[str, int] = {}
        self.functions_analysed = set()
        self.paths_enumerated = 0
        self.notes: List[str] = []
        self.rules_text: Dict[str, str] = {}
        self.analysis_errors: List[str] = []
        self.host_fallbacks: Dict[str, str] = {}

    @property
    def cg(self):
        if self._cg is None:
            from .callgraph import CallGraph

            self._cg = CallGraph(self.repo)
        return self._cg

    # ---- recording ---------------------------------------------------------------
    def rule(self, rule: str, text: str, expect_min: int = 1):
        self.rules_text[rule] = text
        self.expected[rule] = expect_min

    def ob(self, rule: str, key: str, ok: bool, msg: str, where: str = ""):
        self.obs.append(Ob(rule, key, "ok" if ok else "violation", msg, where))
        return ok

    def run(self, fn, *args, **kw):
        """Run one rule group; an anchor that vanished / an idiom the group does not understand is
        recorded and the other groups still run.  If no group reports a violation the run fails
        closed (exit 2); if one does, the violation is reported and the skipped groups are listed."""
        try:
            return fn(*args, **kw)
        except AnalysisError as e:
            self.analysis_errors.append(str(e))
            return None

    def note(self, rule: str, key: str, msg: str, where: str = ""):
        self.obs.append(Ob(rule, key, "note", msg, where))

    def need(self, cond, msg):
        if not cond:
            raise AnalysisError(msg)
        return cond

    def fn(self, qual):
        f = self.repo.try_func(qual)
        if f is None:
            # a private helper of the reference tree that a change inlined into its caller(s) and removed:
            # the statements the rule reasons about now live in the host
            from .inline import load_inventory
            hosts = [self.repo.try_func(h) for h in (load_inventory().get("callers") or {}).get(qual, [])]
            hosts = [h for h in hosts if h is not None]
            if not hosts:
                f = self.repo.func(qual)  # raises AnalysisError
            f = hosts[0]
            self.host_fallbacks[qual] = f.qual
        self.functions_analysed.add(f.qual)
        return f

    def count(self, rule):
        return sum(1 for o in self.obs if o.rule == rule and o.verdict != "note")

    def check_expected(self):
        if any(o.verdict == "violation" for o in self.obs) or self.analysis_errors:
            # a violation is being reported anyway; a broken construct may legitimately hide
            # the dependent instances of its rule
            return
        for r, n in self.expected.items():
            c = self.count(r)
            if c < n:
                raise AnalysisError(
                    "rule %s produced %d obligations, expected at least %d (anchor vanished?)" % (r, c, n)
                )


def load_known() -> List[dict]:
    if not os.path.exists(KNOWN_FILE):
        return []
    with open(KNOWN_FILE) as f:
        return json.load(f).get("findings", [])


def stable_key(key: str) -> str:
    """A construct key without its statement text: `<qualname>::<stmt head>::<tag>` -> `<qualname>::<tag>`.
    Known findings are matched on (rule, stable key) so that renaming a local or re-wrapping the
    statement that carries a recorded finding does not turn it into a "new" violation; a violation
    of another rule, in another function, or with another obligation tag is still new."""
    parts = key.split("::")
    if len(parts) <= 2:
        return key
    # a statement head may itself end in ':' (`for x in y:`), which leaves an empty-looking piece
    return parts[0] + "::" + parts[-1].lstrip(":")


def split_known(ck: "Checker"):
    known = [k for k in load_known() if k.get("property") == ck.prop]
    open_keys = {(k["rule"], stable_key(k["key"])): k for k in known if k.get("status") == "open"}
    new, seen_known = [], []
    for v in ck.obs:
        if v.verdict != "violation":
            continue
        k = open_keys.get((v.rule, stable_key(v.key)))
        if k is not None:
            seen_known.append((v, k))
        else:
            new.append(v)
    return seen_known, new


def finish(ck: Checker, t0: float, seed: int, selfval: Optional[dict] = None, replay: Optional[str] = None) -> int:
    """Print the verdict lines, write evidence, return the exit code."""
    ck.check_expected()
    seen_known, new = split_known(ck)
    os.makedirs(os.path.join(EVIDENCE_DIR, "replay"), exist_ok=True)
    for e in ck.analysis_errors:
        print("ANALYSIS-NOTE property=%s a rule group could not run on this tree (%s); the violations below come from the groups that could" % (ck.prop, e))
    for (v, k) in seen_known:
        print("KNOWN-FINDING: property=%s %s %s -- %s" % (ck.prop, v.rule, v.key, k.get("what", v.msg)))
    replay_paths = []
    for i, v in enumerate(new):
        path = os.path.join(EVIDENCE_DIR, "replay", "%s-%d.json" % (ck.prop, i))
        if replay != "no-evidence":
            with open(path, "w") as f:
                json.dump({"property": ck.prop, "rule": v.rule, "key": v.key, "msg": v.msg, "where": v.where}, f, indent=1)
        replay_paths.append(path)
        print("%s %s %s :: %s" % (v.where or "?", v.rule, v.key, v.msg))
        print("VIOLATION property=%s replay=%s" % (ck.prop, path))
    n_ob = sum(1 for o in ck.obs if o.verdict != "note")
    n_ok = sum(1 for o in ck.obs if o.verdict == "ok")
    rule_inst: Dict[str, int] = {}
    for o in ck.obs:
        if o.verdict != "note":
            rule_inst[o.rule] = rule_inst.get(o.rule, 0) + 1
    distinct = len({(o.rule, o.key) for o in ck.obs if o.verdict != "note"})
    samples = [o.as_dict() for o in ck.obs if o.verdict == "violation"][:10]
    per_rule_seen = set()
    for o in ck.obs:
        if o.verdict == "ok" and o.rule not in per_rule_seen:
            per_rule_seen.add(o.rule)
            samples.append(o.as_dict())
    notes = [o.as_dict() for o in ck.obs if o.verdict == "note"][:30]
    cgs = ck._cg.stats if ck._cg is not None else None
    cov = {
        "explanation": "Static rules decided on /repo's current source (ast, statement CFG with %s exception edges, "
        "reaching definitions, resolved call graph, effect summaries). Rules: %s"
        % (ck.exc_mode, "; ".join("%s = %s" % (r, t) for r, t in sorted(ck.rules_text.items()))),
        "obligations": n_ob,
        "discharged": n_ok,
        "violations_known": len(seen_known),
        "violations_new": len(new),
        "evaluations": max(n_ob, 1),
        "distinct_nontrivial": distinct,
        "rule": "one obligation per rule instance (site, pair, path class or table row) found in the source; "
        "distinct = distinct (rule, construct key) pairs with a concrete site",
        "rule_instances": rule_inst,
        "functions_analysed": sorted(ck.functions_analysed),
        "paths_enumerated": ck.paths_enumerated,
        "exhaustive": True,
        "samples": samples[:40],
        "notes": notes,
        "cfg_exception_mode": ck.exc_mode,
        "rule_groups_not_run": list(ck.analysis_errors),
    }
    if cgs is not None:
        cov["call_sites_total"] = cgs["total"]
        cov["call_sites_resolved"] = cgs["resolved"] + cgs["external"] + cgs["builtinish"]
        cov["call_sites_unresolved"] = cgs["unresolved"]
    if selfval is not None:
        cov["self_validation"] = selfval
    ev = {
        "property_id": ck.prop,
        "tier": ck.tier,
        "seed": seed,
        "level": "other",
        "coverage": cov,
        "assumptions": [
            "closed world: only classes under twosigma/memento are analysed (third-party plugins are not)",
            "spec tables inside the checker: Python data-model facts (code object attributes, builtin subclass "
            "relations), the cross-language wire-format field names, documented option lists parsed from docstrings",
            "context managers do not swallow exceptions; attribute access on repository objects has no side effects",
            "the residue named in MANIFEST level_note (runtime values, schedules, histories) is not decided",
        ],
        "wall_s": round(time.time() - t0, 3),
        "violations": len(new),
    }
    if replay is None:
        with open(os.path.join(EVIDENCE_DIR, "%s.json" % ck.prop), "w") as f:
            json.dump(ev, f, indent=1, sort_keys=True)
    print(
        "%s tier=%s obligations=%d discharged=%d known=%d new=%d rules=%d wall=%.2fs"
        % (ck.prop, ck.tier, n_ob, n_ok, len(seen_known), len(new), len(rule_inst), time.time() - t0)
    )
    return 1 if new else 0
