"""Per-function analysis bundle used by the rules (CFG, dataflow, parent map, helpers)."""
import ast
from typing import Callable, Iterable, List, Optional

from . import astutil as A
from .cfg import CFG
from .dataflow import DataFlow
from .loader import AnalysisError, FuncInfo


def log_call(n) -> bool:
    """Calls treated as non-raising when building exception edges: logging and str.format."""
    if isinstance(n, ast.Call):
        d = A.dotted(n.func)
        if d and d.split(".")[0] == "log":
            return True
        if isinstance(n.func, ast.Attribute) and n.func.attr in ("push_frame", "pop_frame", "get_calling_frame"):
            return True  # CallStack primitives are list operations on a stack this thread owns
        if d == "CallStack.get":
            return True
        if isinstance(n.func, ast.Attribute) and n.func.attr == "format" and isinstance(n.func.value, ast.Constant):
            return True
    if isinstance(n, ast.Attribute):
        return True  # attribute loads on repository objects are plain field reads
    return False


def _prime_implicants(conjs):
    """A disjunction of conjunctions of literals (text, polarity) brought to a canonical form that does not depend on
    iteration order: the consensus of every pair that clashes in exactly one literal is added, then absorbed
    conjunctions are dropped, to a fixpoint (the prime implicants; bounded, falling back to plain absorption)."""
    res = {frozenset(c) for c in conjs}
    if len(res) > 96:
        return {a for a in res if not any(b < a for b in res)}
    for _round in range(16):
        new = set()
        lst = sorted(res, key=lambda c: sorted(c))
        for i in range(len(lst)):
            for j in range(i + 1, len(lst)):
                a, b = lst[i], lst[j]
                clash = [l for l in a if (l[0], not l[1]) in b]
                if len(clash) != 1:
                    continue
                c = frozenset(x for x in (a | b) if x[0] != clash[0][0])
                if not any(r <= c for r in res):
                    new.add(c)
        if not new or len(res) + len(new) > 600:
            break
        res |= new
        res = {a for a in res if not any(b < a for b in res)}
    return {a for a in res if not any(b < a for b in res)}


class FA:
    def __init__(self, ck, qual_or_fi, exc_mode: Optional[str] = None):
        self.ck = ck
        self.fi: FuncInfo = ck.fn(qual_or_fi) if isinstance(qual_or_fi, str) else qual_or_fi
        # True when a rule asked for a private helper that no longer exists and was handed the helper's
        # reference caller instead (the helper was inlined there): rules can switch to role-based anchoring
        self.host_fallback = isinstance(qual_or_fi, str) and self.fi.qual != qual_or_fi
        ck.functions_analysed.add(self.fi.qual)
        self.node = self.fi.node
        self.qual = self.fi.qual
        self.exc_mode = exc_mode or ck.exc_mode
        self._cfg = None
        self._df = None
        self._pm = None

    @property
    def cfg(self) -> CFG:
        if self._cfg is None:
            self._cfg = CFG(self.node, self.exc_mode, nonraising=log_call)
        return self._cfg

    @property
    def df(self) -> DataFlow:
        if self._df is None:
            self._df = DataFlow(self.node, self.cfg)
        return self._df

    @property
    def pm(self):
        if self._pm is None:
            self._pm = A.parent_map(self.node)
        return self._pm

    # ---- lookup ------------------------------------------------------------------
    def calls(self, name: Optional[str] = None, pred: Optional[Callable] = None) -> List[ast.Call]:
        out = []
        for c in A.body_calls(self.node):
            if name is not None and A.call_attr(c) != name:
                continue
            if pred is not None and not pred(c):
                continue
            out.append(c)
        return out

    def stmts(self, typ=None, pred=None) -> List[ast.stmt]:
        out = []
        for s in A.all_stmts(self.node):
            if typ is not None and not isinstance(s, typ):
                continue
            if pred is not None and not pred(s):
                continue
            out.append(s)
        return out

    def stmt_of(self, node):
        return A.enclosing_stmt(self.pm, node)

    def nodes(self, astnode) -> List[int]:
        """CFG nodes evaluating an expression or statement (reachable ones only)."""
        ids = self.cfg.nodes_of(astnode)
        if not ids and isinstance(astnode, (ast.If, ast.While)):
            ids = self.cfg.nodes_of(astnode.test)
        if not ids:
            st = self.stmt_of(astnode)
            if st is not None and st is not astnode:
                ids = self.cfg.nodes_of(st)
        live = self.cfg.reachable_nodes()
        return [i for i in ids if i in live]

    def nodes_all(self, astnodes: Iterable) -> List[int]:
        out = []
        for a in astnodes:
            out += self.nodes(a)
        return out

    def one(self, lst, what):
        if len(lst) != 1:
            raise AnalysisError("%s: expected exactly one %s, found %d" % (self.qual, what, len(lst)))
        return lst[0]

    def some(self, lst, what):
        if not lst:
            raise AnalysisError("%s: expected %s, found none" % (self.qual, what))
        return lst

    def key(self, node=None, tag: str = "") -> str:
        base = self.qual
        if node is not None:
            st = node if isinstance(node, (ast.stmt, ast.ExceptHandler)) else (self.stmt_of(node) or node)
            base += "::" + A.head(st, 90)
        if tag:
            base += "::" + tag
        return base

    def where(self, node=None) -> str:
        return A.loc(self.fi, node if node is not None else self.node)

    def unconditional(self, node) -> bool:
        """Is `node` evaluated whenever its enclosing statement is executed?  (Not inside a
        conditional expression branch, a short-circuited operand, a comprehension element
        or a lambda.)"""
        n = node
        while n is not None and not isinstance(n, ast.stmt):
            p = self.pm.get(n)
            if isinstance(p, ast.IfExp) and n is not p.test:
                return False
            if isinstance(p, ast.BoolOp) and p.values and n is not p.values[0]:
                return False
            if isinstance(p, (ast.ListComp, ast.SetComp, ast.GeneratorExp, ast.DictComp)):
                if not (p.generators and n is p.generators[0] and False):
                    # the first iterable is evaluated eagerly, everything else per element
                    first_iter = p.generators[0].iter if p.generators else None
                    if not (first_iter is not None and self.inside(node, first_iter)):
                        return False
            if isinstance(p, ast.Lambda):
                return False
            n = p
        return True

    def inside(self, node, ancestor) -> bool:
        n = node
        while n is not None:
            if n is ancestor:
                return True
            n = self.pm.get(n)
        return False

    def enclosing(self, node, types):
        return A.enclosing(self.pm, node, types)

    def returns(self) -> List[ast.Return]:
        return self.stmts(ast.Return)

    def deps(self, expr, at_node=None):
        ids = self.nodes(expr) if at_node is None else [at_node]
        if not ids:
            raise AnalysisError("%s: expression `%s` has no (reachable) CFG node" % (self.qual, A.short(expr, 60)))
        out = set()
        for i in ids:
            out |= self.df.deps(expr, i)
        return out

    # ---- name-independent view of an expression --------------------------------------
    def expand(self, expr, at_node: Optional[int] = None, depth: int = 12, _stack=()):
        """A copy of `expr` in which every local name that has exactly ONE reaching plain
        assignment is replaced by (the expansion of) the assigned value.  Rules compare the
        expansion instead of the spelling, so renaming a temporary, introducing one or inlining
        one does not change what they see.  Names with several reaching definitions, parameters,
        loop / with / comprehension variables are left as they are."""
        import copy
        if at_node is None:
            ids = self.nodes(expr)
            if not ids:
                raise AnalysisError("%s: expression `%s` has no (reachable) CFG node" % (self.qual, A.short(expr, 60)))
            at_node = ids[0]
        bound = set()
        for x in ast.walk(expr):
            if isinstance(x, ast.comprehension):
                bound |= {n.id for n in ast.walk(x.target) if isinstance(n, ast.Name)}
            if isinstance(x, ast.Lambda):
                bound |= {a.arg for a in x.args.args + x.args.kwonlyargs + x.args.posonlyargs}
        fa = self

        class T(ast.NodeTransformer):
            def visit_Name(self, n):
                if not isinstance(n.ctx, ast.Load) or n.id in bound or depth <= 0:
                    return n
                ds = fa.df.reaching(at_node, n.id)
                if len(ds) != 1:
                    return n
                d = ds[0]
                if d.kind != "assign" or d.value is None or (d.node, d.name) in _stack:
                    return n
                return fa.expand(d.value, d.node, depth - 1, _stack + ((d.node, d.name),))

        return T().visit(copy.deepcopy(expr))

    def xnorm(self, expr, at_node: Optional[int] = None) -> str:
        """Normalised text of the expansion of `expr` (casts removed)."""
        e = self.expand(expr, at_node)

        class C(ast.NodeTransformer):
            def visit_Call(self, n):
                self.generic_visit(n)
                if isinstance(n.func, ast.Name) and n.func.id == "cast" and len(n.args) == 2:
                    return n.args[1]
                return n

        return A.norm(C().visit(e))

    # ---- path conditions ----------------------------------------------------------------
    def _atoms(self, test, node_id, positive: bool):
        """Decompose a branch test taken with the given polarity into literals (text, polarity).  A conjunction
        taken true / a disjunction taken false splits into its parts; anything else stays one literal."""
        t = test
        if isinstance(t, ast.Name) and not getattr(t, "_no_expand", False):
            # a boolean local: open it up (`missing = k not in d` ... `if missing:`)
            try:
                e = self.expand(t, node_id)
            except (AnalysisError, RecursionError):
                e = t
            if not isinstance(e, ast.Name) and isinstance(e, (ast.Compare, ast.BoolOp, ast.UnaryOp)):
                for x_ in ast.walk(e):
                    x_._no_expand = True
                return self._atoms(e, node_id, positive)
        if isinstance(t, ast.UnaryOp) and isinstance(t.op, ast.Not):
            return self._atoms(t.operand, node_id, not positive)
        if isinstance(t, ast.BoolOp):
            if (isinstance(t.op, ast.And) and positive) or (isinstance(t.op, ast.Or) and not positive):
                out = []
                for v in t.values:
                    out += self._atoms(v, node_id, positive)
                return out
        return [self._literal(t, node_id, positive)]

    def _alts(self, test, node_id, positive: bool, _depth: int = 0):
        """The ways a branch test can come out with the given polarity, as alternative conjunctions of literals:
        a conjunction taken true / a disjunction taken false is one conjunction of its parts (the cross product of
        their alternatives); a disjunction taken true / a conjunction taken false is split in short-circuit order
        (`a or b` true = a, or not a and b); a conditional expression `x if c else y` is (c and x) or (not c and y).
        Falls back to the single-conjunction reading of `_atoms` when the product grows too large."""
        import os as _os
        if _os.environ.get("FA_SPLIT", "1") == "0" or _depth > 6:
            return [self._atoms(test, node_id, positive)]
        t = test
        if isinstance(t, ast.Name) and not getattr(t, "_no_expand", False):
            try:
                e = self.expand(t, node_id)
            except (AnalysisError, RecursionError):
                e = t
            if not isinstance(e, ast.Name) and isinstance(e, (ast.Compare, ast.BoolOp, ast.UnaryOp, ast.IfExp)):
                for x_ in ast.walk(e):
                    x_._no_expand = True
                return self._alts(e, node_id, positive, _depth + 1)
        if isinstance(t, ast.UnaryOp) and isinstance(t.op, ast.Not):
            return self._alts(t.operand, node_id, not positive, _depth + 1)
        if isinstance(t, ast.IfExp):
            out = []
            for c_alt in self._alts(t.test, node_id, True, _depth + 1):
                for b_alt in self._alts(t.body, node_id, positive, _depth + 1):
                    out.append(c_alt + [l for l in b_alt if l not in c_alt])
            for c_alt in self._alts(t.test, node_id, False, _depth + 1):
                for b_alt in self._alts(t.orelse, node_id, positive, _depth + 1):
                    out.append(c_alt + [l for l in b_alt if l not in c_alt])
            return self._consistent(out) if len(out) <= 16 else [self._atoms(test, node_id, positive)]
        if isinstance(t, ast.BoolOp):
            conj = (isinstance(t.op, ast.And) and positive) or (isinstance(t.op, ast.Or) and not positive)
            if conj:
                acc = [[]]
                for v in t.values:
                    nxt = []
                    for a in acc:
                        for b in self._alts(v, node_id, positive, _depth + 1):
                            nxt.append(a + [l for l in b if l not in a])
                    acc = nxt
                    if len(acc) > 16:
                        return [self._atoms(test, node_id, positive)]
                return self._consistent(acc)
            # short-circuit alternatives: the k-th operand decides after the earlier ones came out the other way
            out = []
            prefix = [[]]
            for v in t.values:
                for pre in prefix:
                    for b in self._alts(v, node_id, positive, _depth + 1):
                        out.append(pre + [l for l in b if l not in pre])
                nxt = []
                for pre in prefix:
                    for b in self._alts(v, node_id, not positive, _depth + 1):
                        nxt.append(pre + [l for l in b if l not in pre])
                prefix = nxt
                if len(out) > 16 or len(prefix) > 16:
                    return [self._atoms(test, node_id, positive)]
            return self._consistent(out)
        return [[self._literal(t, node_id, positive)]]

    @staticmethod
    def _consistent(alts):
        """Drop alternatives that contain a literal and its negation."""
        out = [a for a in alts if not any((l[0], not l[1]) in a for l in a)]
        return out if out else alts

    def _literal(self, t, node_id, positive):
        """Canonical text of one literal: locals expanded, `x is not None` as the negation of `x is None`,
        `a != b` as the negation of `a == b`, `a not in b` of `a in b`, operands of == sorted; `bool(E)` is E."""
        while isinstance(t, ast.Call) and isinstance(t.func, ast.Name) and t.func.id == "bool" and len(t.args) == 1 and not t.keywords:
            t = t.args[0]
        if isinstance(t, ast.Compare) and len(t.ops) == 1:
            op = t.ops[0]
            l, r = t.left, t.comparators[0]
            neg = {ast.IsNot: ast.Is, ast.NotEq: ast.Eq, ast.NotIn: ast.In}
            if type(op) in neg:
                t = ast.copy_location(ast.Compare(left=l, ops=[neg[type(op)]()], comparators=[r]), t)
                positive = not positive
                op = t.ops[0]
            lt, rt = self.xnorm(l, node_id), self.xnorm(r, node_id)
            if isinstance(op, ast.Eq) and rt < lt:
                lt, rt = rt, lt
            sym = {ast.Is: "is", ast.Eq: "==", ast.In: "in", ast.Lt: "<", ast.Gt: ">", ast.LtE: "<=", ast.GtE: ">="}.get(type(op), type(op).__name__)
            return ("%s %s %s" % (lt, sym, rt), positive)
        return (self.xnorm(t, node_id), positive)

    def conditions(self, target, cap: int = 4000):
        """Disjunctive normal form of the conditions under which `target` (a statement / expression / CFG node
        id) is reached from the entry: a set of frozensets of literals (text, polarity), collected along the
        acyclic paths of the CFG and simplified by resolution ((A & x) | (A & ~x) = A) and absorption.  Loop
        heads contribute no literal.  Returns None when there are too many paths."""
        ids = [target] if isinstance(target, int) else self.nodes(target)
        cfg = self.cfg
        want = set(ids)
        results = set()
        count = [0]

        def dfs(n, onpath, lits):
            if count[0] > cap:
                return
            if n in want:
                count[0] += 1
                results.add(frozenset(lits))
                return
            for (d, l) in cfg.succ[n]:
                if d in onpath:
                    continue
                adds = [[]]
                nd = cfg.node(n)
                if nd.kind == "test" and l in ("T", "F") and not isinstance(self.pm.get(nd.ast), ast.While):
                    adds = self._alts(nd.ast, n, l == "T")
                onpath.add(d)
                for add in adds:
                    # contradictory literal: infeasible path
                    if any((a[0], not a[1]) in lits for a in add):
                        continue
                    dfs(d, onpath, lits + [a for a in add if a not in lits])
                onpath.discard(d)

        dfs(cfg.entry, {cfg.entry}, [])
        if count[0] > cap:
            return None
        return _prime_implicants(results)

    def outcomes(self, target_text: str, cap: int = 4000):
        """What a name / attribute finally holds when the function returns normally, per path class:
        a list of (frozenset of literals, value text) — the value last assigned to `target_text` (e.g.
        'self.read_only') on each acyclic path from the entry to the normal exit, with the path's branch
        literals; conditional expressions are split into their two cases.  Paths are merged when they assign
        the same value and differ in one literal.  None when there are too many paths."""
        cfg = self.cfg
        res = {}
        count = [0]
        fa = self

        def split(value_node, node_id):
            """[(extra literals, value text)] for a value that may be a conditional expression / `a or b`."""
            v = value_node
            if not getattr(v, "_expanded", False):
                try:
                    v = fa.expand(v, node_id)
                except AnalysisError:
                    pass
                for x_ in ast.walk(v):
                    x_._expanded = True
            if isinstance(v, ast.BoolOp) and isinstance(v.op, ast.Or) and len(v.values) == 2:
                # `a or b`: a when a is truthy, else b
                a_, b_ = v.values
                return [(fa._atoms(a_, node_id, True), fa.xnorm(a_, node_id))] + [(fa._atoms(a_, node_id, False) + l_, t_) for (l_, t_) in split(b_, node_id)]
            if isinstance(v, ast.IfExp):
                out = []
                for (lits_t, txt) in split(v.body, node_id):
                    out.append((fa._atoms(v.test, node_id, True) + lits_t, txt))
                for (lits_f, txt) in split(v.orelse, node_id):
                    out.append((fa._atoms(v.test, node_id, False) + lits_f, txt))
                return out
            return [([], fa.xnorm(v, node_id))]

        def dfs(n, onpath, lits, last):
            if count[0] > cap:
                return
            if n == cfg.exit:
                count[0] += 1
                if last is not None:
                    for (extra, txt) in last:
                        if any((a[0], not a[1]) in lits for a in extra):
                            continue
                        res.setdefault(txt, set()).add(frozenset(lits + [a for a in extra if a not in lits]))
                else:
                    res.setdefault("<unassigned>", set()).add(frozenset(lits))
                return
            nd = cfg.node(n)
            if nd.kind == "stmt" and isinstance(nd.ast, (ast.Assign, ast.AnnAssign)) and getattr(nd.ast, "value", None) is not None:
                tg = nd.ast.targets if isinstance(nd.ast, ast.Assign) else [nd.ast.target]
                if any(A.norm(t) == target_text for t in tg):
                    last = split(nd.ast.value, n)
            for (d, l) in cfg.succ[n]:
                if d in onpath or l == "exc":
                    continue
                adds = [[]]
                if nd.kind == "test" and l in ("T", "F") and not isinstance(fa.pm.get(nd.ast), ast.While):
                    adds = fa._alts(nd.ast, n, l == "T")
                onpath.add(d)
                for add in adds:
                    if any((a[0], not a[1]) in lits for a in add):
                        continue
                    dfs(d, onpath, lits + [a for a in add if a not in lits], last)
                onpath.discard(d)

        dfs(cfg.entry, {cfg.entry}, [], None)
        if count[0] > cap:
            return None
        out = []
        for txt, conds in res.items():
            cs = _prime_implicants(conds)
            for c in cs:
                out.append((c, txt))
        return out

    def path_desc(self, start, target, removed=()):
        p = self.cfg.path(start, target, removed)
        return self.cfg.describe_path(p) if p else "(no path)"
