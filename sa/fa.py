"""Per-function analysis bundle used by the rules (CFG, dataflow, parent map, helpers)."""
import ast
from typing import Callable, Iterable, List, Optional

from . import astutil as A
from .cfg import CFG
from .dataflow import DataFlow
from .loader import AnalysisError, FuncInfo


def log_call(n) -> bool:
    """Calls treated as non-raising when building exception edges: logging and str.format."""
    if isinstance(n, ast.Call):
        d = A.dotted(n.func)
        if d and d.split(".")[0] == "log":
            return True
        if isinstance(n.func, ast.Attribute) and n.func.attr in ("push_frame", "pop_frame", "get_calling_frame"):
            return True  # CallStack primitives are list operations on a stack this thread owns
        if d == "CallStack.get":
            return True
        if isinstance(n.func, ast.Attribute) and n.func.attr == "format" and isinstance(n.func.value, ast.Constant):
            return True
    if isinstance(n, ast.Attribute):
        return True  # attribute loads on repository objects are plain field reads
    return False


class FA:
    def __init__(self, ck, qual_or_fi, exc_mode: Optional[str] = None):
        self.ck = ck
        self.fi: FuncInfo = ck.fn(qual_or_fi) if isinstance(qual_or_fi, str) else qual_or_fi
        ck.functions_analysed.add(self.fi.qual)
        self.node = self.fi.node
        self.qual = self.fi.qual
        self.exc_mode = exc_mode or ck.exc_mode
        self._cfg = None
        self._df = None
        self._pm = None

    @property
    def cfg(self) -> CFG:
        if self._cfg is None:
            self._cfg = CFG(self.node, self.exc_mode, nonraising=log_call)
        return self._cfg

    @property
    def df(self) -> DataFlow:
        if self._df is None:
            self._df = DataFlow(self.node, self.cfg)
        return self._df

    @property
    def pm(self):
        if self._pm is None:
            self._pm = A.parent_map(self.node)
        return self._pm

    # ---- lookup ------------------------------------------------------------------
    def calls(self, name: Optional[str] = None, pred: Optional[Callable] = None) -> List[ast.Call]:
        out = []
        for c in A.body_calls(self.node):
            if name is not None and A.call_attr(c) != name:
                continue
            if pred is not None and not pred(c):
                continue
            out.append(c)
        return out

    def stmts(self, typ=None, pred=None) -> List[ast.stmt]:
        out = []
        for s in A.all_stmts(self.node):
            if typ is not None and not isinstance(s, typ):
                continue
            if pred is not None and not pred(s):
                continue
            out.append(s)
        return out

    def stmt_of(self, node):
        return A.enclosing_stmt(self.pm, node)

    def nodes(self, astnode) -> List[int]:
        """CFG nodes evaluating an expression or statement (reachable ones only)."""
        ids = self.cfg.nodes_of(astnode)
        if not ids:
            st = self.stmt_of(astnode)
            if st is not None and st is not astnode:
                ids = self.cfg.nodes_of(st)
        live = self.cfg.reachable_nodes()
        return [i for i in ids if i in live]

    def nodes_all(self, astnodes: Iterable) -> List[int]:
        out = []
        for a in astnodes:
            out += self.nodes(a)
        return out

    def one(self, lst, what):
        if len(lst) != 1:
            raise AnalysisError("%s: expected exactly one %s, found %d" % (self.qual, what, len(lst)))
        return lst[0]

    def some(self, lst, what):
        if not lst:
            raise AnalysisError("%s: expected %s, found none" % (self.qual, what))
        return lst

    def key(self, node=None, tag: str = "") -> str:
        base = self.qual
        if node is not None:
            st = node if isinstance(node, (ast.stmt, ast.ExceptHandler)) else (self.stmt_of(node) or node)
            base += "::" + A.head(st, 90)
        if tag:
            base += "::" + tag
        return base

    def where(self, node=None) -> str:
        return A.loc(self.fi, node if node is not None else self.node)

    def unconditional(self, node) -> bool:
        """Is `node` evaluated whenever its enclosing statement is executed?  (Not inside a
        conditional expression branch, a short-circuited operand, a comprehension element
        or a lambda.)"""
        n = node
        while n is not None and not isinstance(n, ast.stmt):
            p = self.pm.get(n)
            if isinstance(p, ast.IfExp) and n is not p.test:
                return False
            if isinstance(p, ast.BoolOp) and p.values and n is not p.values[0]:
                return False
            if isinstance(p, (ast.ListComp, ast.SetComp, ast.GeneratorExp, ast.DictComp)):
                if not (p.generators and n is p.generators[0] and False):
                    # the first iterable is evaluated eagerly, everything else per element
                    first_iter = p.generators[0].iter if p.generators else None
                    if not (first_iter is not None and self.inside(node, first_iter)):
                        return False
            if isinstance(p, ast.Lambda):
                return False
            n = p
        return True

    def inside(self, node, ancestor) -> bool:
        n = node
        while n is not None:
            if n is ancestor:
                return True
            n = self.pm.get(n)
        return False

    def enclosing(self, node, types):
        return A.enclosing(self.pm, node, types)

    def returns(self) -> List[ast.Return]:
        return self.stmts(ast.Return)

    def deps(self, expr, at_node=None):
        ids = self.nodes(expr) if at_node is None else [at_node]
        if not ids:
            raise AnalysisError("%s: expression `%s` has no (reachable) CFG node" % (self.qual, A.short(expr, 60)))
        out = set()
        for i in ids:
            out |= self.df.deps(expr, i)
        return out

    # ---- name-independent view of an expression --------------------------------------
    def expand(self, expr, at_node: Optional[int] = None, depth: int = 12, _stack=()):
        """A copy of `expr` in which every local name that has exactly ONE reaching plain
        assignment is replaced by (the expansion of) the assigned value.  Rules compare the
        expansion instead of the spelling, so renaming a temporary, introducing one or inlining
        one does not change what they see.  Names with several reaching definitions, parameters,
        loop / with / comprehension variables are left as they are."""
        import copy
        if at_node is None:
            ids = self.nodes(expr)
            if not ids:
                raise AnalysisError("%s: expression `%s` has no (reachable) CFG node" % (self.qual, A.short(expr, 60)))
            at_node = ids[0]
        bound = set()
        for x in ast.walk(expr):
            if isinstance(x, ast.comprehension):
                bound |= {n.id for n in ast.walk(x.target) if isinstance(n, ast.Name)}
            if isinstance(x, ast.Lambda):
                bound |= {a.arg for a in x.args.args + x.args.kwonlyargs + x.args.posonlyargs}
        fa = self

        class T(ast.NodeTransformer):
            def visit_Name(self, n):
                if not isinstance(n.ctx, ast.Load) or n.id in bound or depth <= 0:
                    return n
                ds = fa.df.reaching(at_node, n.id)
                if len(ds) != 1:
                    return n
                d = ds[0]
                if d.kind != "assign" or d.value is None or (d.node, d.name) in _stack:
                    return n
                return fa.expand(d.value, d.node, depth - 1, _stack + ((d.node, d.name),))

        return T().visit(copy.deepcopy(expr))

    def xnorm(self, expr, at_node: Optional[int] = None) -> str:
        """Normalised text of the expansion of `expr` (casts removed)."""
        e = self.expand(expr, at_node)

        class C(ast.NodeTransformer):
            def visit_Call(self, n):
                self.generic_visit(n)
                if isinstance(n.func, ast.Name) and n.func.id == "cast" and len(n.args) == 2:
                    return n.args[1]
                return n

        return A.norm(C().visit(e))

    def path_desc(self, start, target, removed=()):
        p = self.cfg.path(start, target, removed)
        return self.cfg.describe_path(p) if p else "(no path)"
