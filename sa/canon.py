"""Normal form the rules are evaluated on.

Two behaviour-preserving rewrites are undone before any rule looks at a function, so that a
rule sees the same tree whether or not a developer introduced a temporary right in front of a
`return` / `if`, or wrote an `if` / `else` with the branches the other way round:

  N1  t = E                      return E            (t a plain local, assigned once in the function,
      return t          ==>                           loaded exactly once: in that return / if test,
                                                      which is the statement that follows)
      t = E
      if t: ...         ==>      if E: ...

  N2  if not T: A                if T: B             (else present and not an elif chain)
      else: B           ==>      else: A

  N1b t = P                      S[P]                (P pure: names / attribute chains / constant subscripts;
      S[t]              ==>                           S the next simple statement, using t once, outside any
                                                      lambda / comprehension)

  N3  `pass` is dropped from every block that has another statement.

  N4  `with A, B as v: body` is written as the nested `with A: with B as v: body`.

All are applied until nothing changes.  Locations are kept (the merged statement
keeps the position of the `return` / `if`; the expression keeps its own), so reports still
point into the real source.  `# type:` comments of a removed temporary are dropped: no rule
reads the type of a single-use temporary.
"""
import ast

FUNC = (ast.FunctionDef, ast.AsyncFunctionDef)


def _name_counts(fn):
    """name -> (stores, loads) over the whole function, nested scopes included (a name captured by
    a closure counts as a load, which keeps us from inlining it)."""
    st, ld = {}, {}
    for n in ast.walk(fn):
        if isinstance(n, ast.Name):
            d = st if isinstance(n.ctx, (ast.Store, ast.Del)) else ld
            d[n.id] = d.get(n.id, 0) + 1
        elif isinstance(n, ast.arg):
            st[n.arg] = st.get(n.arg, 0) + 1
        elif isinstance(n, (ast.Global, ast.Nonlocal)):
            for x in n.names:
                st[x] = st.get(x, 0) + 2
        elif isinstance(n, ast.ExceptHandler) and n.name:
            st[n.name] = st.get(n.name, 0) + 1
        elif isinstance(n, (ast.Import, ast.ImportFrom)):
            for a in n.names:
                nm = (a.asname or a.name).split(".")[0]
                st[nm] = st.get(nm, 0) + 1
    # N1f: a temporary that is bound several times (the same helper inlined in several branches) but each time used exactly once,
    # in the statement that follows its binding: every binding / use pair stands alone, as if the names were different
    if "N1f" not in _SKIP:
        multi = {t for t in st if st[t] > 1 and ld.get(t, 0) == st[t]}
        if multi:
            pairs = {t: 0 for t in multi}
            for n in ast.walk(fn):
                for b in _blocks(n):
                    for i, s_ in enumerate(b):
                        if isinstance(s_, ast.Assign) and len(s_.targets) == 1 and isinstance(s_.targets[0], ast.Name) and s_.targets[0].id in multi:
                            t = s_.targets[0].id
                            nxt = b[i + 1] if i + 1 < len(b) else None
                            if nxt is None or any(isinstance(x, ast.Name) and x.id == t for x in ast.walk(s_.value)):
                                continue
                            inside = [x for x in ast.walk(nxt) if isinstance(x, ast.Name) and x.id == t]
                            if len(inside) == 1 and isinstance(inside[0].ctx, ast.Load) and not isinstance(nxt, (ast.While, ast.For, ast.AsyncFor, ast.With, ast.Try) + FUNC):
                                pairs[t] += 1
            for t in multi:
                if pairs[t] == st[t]:
                    st[t] = ld[t] = 1
    return st, ld


def _inline_block(body, st, ld):
    changed = False
    out = []
    i = 0
    while i < len(body):
        s = body[i]
        nxt = body[i + 1] if i + 1 < len(body) else None
        if (isinstance(s, ast.Assign) and len(s.targets) == 1 and isinstance(s.targets[0], ast.Name) and nxt is not None):
            t = s.targets[0].id
            if st.get(t, 0) == 1 and ld.get(t, 0) == 1:
                if isinstance(nxt, ast.Return) and isinstance(nxt.value, ast.Name) and nxt.value.id == t:
                    nxt.value = s.value
                    changed = True
                    i += 1
                    continue
                if isinstance(nxt, ast.If) and isinstance(nxt.test, ast.Name) and nxt.test.id == t:
                    nxt.test = s.value
                    changed = True
                    i += 1
                    continue
                if isinstance(nxt, ast.If) and isinstance(nxt.test, ast.UnaryOp) and isinstance(nxt.test.op, ast.Not) \
                        and isinstance(nxt.test.operand, ast.Name) and nxt.test.operand.id == t and "N1c" not in _SKIP:
                    # N1c: `fits = a <= b` ... `if not fits:`
                    nxt.test = ast.copy_location(ast.UnaryOp(op=ast.Not(), operand=s.value), nxt.test)
                    changed = True
                    i += 1
                    continue
                # N1b: a PURE temporary (names, attribute chains, constant subscripts: nothing that can
                # have an effect, so evaluation order does not matter) used once in the next simple statement
                # E33: a callee chosen by a conditional expression and called once in the next statement: the call under each arm
                if "E33" not in _SKIP and isinstance(s.value, ast.IfExp) and _pure(s.value.body) and _pure(s.value.orelse) \
                        and isinstance(nxt, (ast.Assign, ast.Return, ast.Expr)) and not isinstance(nxt, ast.If):
                    import copy as _copy
                    callee_uses = [c for c in ast.walk(nxt) if isinstance(c, ast.Call) and isinstance(c.func, ast.Name) and c.func.id == t]
                    all_uses = [n for n in ast.walk(nxt) if isinstance(n, ast.Name) and n.id == t]
                    if len(callee_uses) == 1 and len(all_uses) == 1 and not _call_before([nxt], callee_uses[0].func):
                        arms = []
                        for arm in (s.value.body, s.value.orelse):
                            cp = _copy.deepcopy(nxt)
                            for c in ast.walk(cp):
                                if isinstance(c, ast.Call) and isinstance(c.func, ast.Name) and c.func.id == t:
                                    c.func = _copy.deepcopy(arm)
                            arms.append(cp)
                        out.append(ast.fix_missing_locations(ast.copy_location(ast.If(test=s.value.test, body=[arms[0]], orelse=[arms[1]]), s)))
                        changed = True
                        i += 2
                        continue
                # N1e: any value, when nothing but constants / plain names is evaluated before the place it is used at in the next
                # statement: the value is then computed at the very same point of the execution
                if "N1e" not in _SKIP and isinstance(nxt, (ast.Return, ast.Expr)) or (isinstance(nxt, ast.Assign) and len(nxt.targets) == 1):
                    top = nxt.value
                    uses = [n for n in ast.walk(top) if isinstance(n, ast.Name) and n.id == t and isinstance(n.ctx, ast.Load)] if top is not None else []
                    in_target = isinstance(nxt, ast.Assign) and any(isinstance(n, ast.Name) and n.id == t for n in ast.walk(nxt.targets[0]))
                    if "N1e" not in _SKIP and len(uses) == 1 and not in_target and not _pure(s.value) and _first_evaluated(top, uses[0]):
                        _replace([nxt], uses[0], s.value)
                        changed = True
                        i += 1
                        continue
                if (_pure(s.value) or ("N1d" not in _SKIP and _fresh_display(s.value))) \
                        and isinstance(nxt, (ast.Return, ast.Assign, ast.AugAssign, ast.Expr, ast.Raise, ast.Assert, ast.If)) \
                        and not _reads_written(s.value, nxt):
                    scope = [nxt.test] if isinstance(nxt, ast.If) else [nxt]
                    uses = [n for sc in scope for n in ast.walk(sc) if isinstance(n, ast.Name) and n.id == t and isinstance(n.ctx, ast.Load)]
                    inner = [n for sc in scope for x in ast.walk(sc) if isinstance(x, (ast.Lambda, ast.ListComp, ast.SetComp, ast.DictComp, ast.GeneratorExp))
                             for n in ast.walk(x) if isinstance(n, ast.Name) and n.id == t]
                    if len(uses) == 1 and not inner and not _call_before(scope, uses[0]):
                        _replace(scope, uses[0], s.value)
                        changed = True
                        i += 1
                        continue
        out.append(s)
        i += 1
    body[:] = out
    return changed


class _NoOrder(Exception):
    pass


def _eval_order(e):
    """The nodes of an expression in the order their evaluation completes (operands before the node), for the plain node kinds
    whose operands are all evaluated, left to right; _NoOrder for anything evaluated conditionally or later (and / or, a
    conditional expression, a lambda, a comprehension)."""
    if isinstance(e, (ast.ListComp, ast.SetComp, ast.DictComp, ast.GeneratorExp)):
        # the outermost iterable is evaluated where the comprehension stands; everything else later, per element
        yield from _eval_order(e.generators[0].iter)
        raise _NoOrder()
    if isinstance(e, (ast.BoolOp, ast.IfExp, ast.Lambda, ast.NamedExpr, ast.Await, ast.Yield, ast.YieldFrom, ast.JoinedStr)):
        raise _NoOrder()
    if isinstance(e, ast.Dict):
        for k, v in zip(e.keys, e.values):
            if k is not None:
                yield from _eval_order(k)
            yield from _eval_order(v)
    elif isinstance(e, ast.Compare) and len(e.ops) > 1:
        raise _NoOrder()
    else:
        for ch in ast.iter_child_nodes(e):
            if isinstance(ch, ast.expr):
                yield from _eval_order(ch)
            elif isinstance(ch, ast.keyword):
                yield from _eval_order(ch.value)
    yield e


def _first_evaluated(expr, use) -> bool:
    """N1e: is `use` reached before anything but constants and plain names (and displays of those) has been evaluated?"""
    try:
        for n in _eval_order(expr):
            if n is use:
                return True
            if not isinstance(n, (ast.Constant, ast.Name, ast.Tuple, ast.List, ast.Set, ast.Dict, ast.Starred)):
                return False
    except _NoOrder:
        return False
    return False


def _call_before(scope, use):
    """Is some call of the statement completely to the left of `use` (and therefore evaluated before
    it)?  Such a call could change what the temporary's expression reads; decline then."""
    up = (use.lineno, use.col_offset)
    for sc in scope:
        for n in ast.walk(sc):
            if isinstance(n, (ast.Call, ast.Await, ast.Yield, ast.YieldFrom, ast.NamedExpr)) and hasattr(n, "end_lineno") \
                    and (n.end_lineno, n.end_col_offset) <= up:
                return True
    return False


def _pure(e):
    if isinstance(e, (ast.Name, ast.Constant)):
        return True
    if isinstance(e, ast.Attribute):
        return _pure(e.value)
    if isinstance(e, ast.Subscript):
        return _pure(e.value) and isinstance(e.slice, (ast.Constant, ast.Name))
    return False


def _fresh_display(e):
    """N1d: a dict / list / tuple / set display of pure elements: a new object that, used once in the next statement, is that
    display written in place"""
    if isinstance(e, ast.Dict):
        return all((k is None or _pure(k)) and (_pure(v) or _fresh_display(v)) for k, v in zip(e.keys, e.values))
    if isinstance(e, (ast.List, ast.Tuple, ast.Set)):
        return all(_pure(x.value if isinstance(x, ast.Starred) else x) for x in e.elts)
    return False


def _reads_written(value, stmt):
    """Does `stmt` assign something that `value` reads?  (x = a.b ; a.b = f(x): inlining is still
    fine because the right-hand side is evaluated first, but keep it simple and decline.)"""
    reads = {ast.unparse(n) for n in ast.walk(value) if isinstance(n, (ast.Name, ast.Attribute, ast.Subscript))}
    targets = []
    if isinstance(stmt, ast.Assign):
        targets = stmt.targets
    elif isinstance(stmt, ast.AugAssign):
        targets = [stmt.target]
    for t in targets:
        for n in ast.walk(t):
            if isinstance(n, (ast.Name, ast.Attribute, ast.Subscript)) and ast.unparse(n) in reads:
                return True
    return False


def _replace(scope, target, value):
    class R(ast.NodeTransformer):
        def visit_Name(self, n):
            return value if n is target else n
    for i, sc in enumerate(scope):
        R().visit(sc)


def _blocks(node):
    for f in ("body", "orelse", "finalbody"):
        b = getattr(node, f, None)
        if isinstance(b, list) and b and isinstance(b[0], ast.stmt):
            yield b
    if isinstance(node, ast.Try):
        for h in node.handlers:
            yield h.body
    if hasattr(ast, "Match") and isinstance(node, getattr(ast, "Match")):
        for c in node.cases:
            yield c.body


def _split_withs(fn):
    """N4: `with A, B as v: body`  ==>  `with A: with B as v: body` (the language defines them as equal)."""
    for n in ast.walk(fn):
        if isinstance(n, ast.With) and len(n.items) > 1:
            inner = ast.With(items=n.items[1:], body=n.body, type_comment=None)
            ast.copy_location(inner, n)
            n.items = n.items[:1]
            n.body = [inner]
    # ast.walk visits the freshly made inner node later, so longer item lists are split fully


class _ExprNF(ast.NodeTransformer):
    """Expression normal forms (all meaning-preserving):
      E1  negations pushed inward: not (a is b) -> a is not b, not (a == b) -> a != b, not (a in b) -> a not in b,
          not not a -> a (in a boolean position), not (a and b) -> not a or not b, not (a or b) -> not a and not b;
          a constant / None on the left of a comparison moves to the right (0 < n -> n > 0, None is x -> x is None)
      E3  x = x <op> e  ->  x <op>= e            (x a name or attribute chain)
      E8  s[0:n] -> s[:n]
      E9  dict() -> {}, list() -> [], tuple() -> ()
      E6  isinstance(x, A) or isinstance(x, B)  ->  isinstance(x, (A, B))
    """
    NEG = {ast.Is: ast.IsNot, ast.IsNot: ast.Is, ast.Eq: ast.NotEq, ast.NotEq: ast.Eq, ast.In: ast.NotIn, ast.NotIn: ast.In,
           ast.Lt: ast.GtE, ast.GtE: ast.Lt, ast.Gt: ast.LtE, ast.LtE: ast.Gt}
    FLIP = {ast.Lt: ast.Gt, ast.Gt: ast.Lt, ast.LtE: ast.GtE, ast.GtE: ast.LtE, ast.Eq: ast.Eq, ast.NotEq: ast.NotEq, ast.Is: ast.Is, ast.IsNot: ast.IsNot}

    def _neg(self, e):
        """The negation of e, pushed inward where that is exact."""
        if isinstance(e, ast.UnaryOp) and isinstance(e.op, ast.Not):
            return e.operand
        if isinstance(e, ast.Compare) and len(e.ops) == 1 and type(e.ops[0]) in self.NEG and not isinstance(e.ops[0], (ast.Lt, ast.Gt, ast.LtE, ast.GtE)):
            return ast.copy_location(ast.Compare(left=e.left, ops=[self.NEG[type(e.ops[0])]()], comparators=e.comparators), e)
        if isinstance(e, ast.BoolOp):
            op = ast.Or() if isinstance(e.op, ast.And) else ast.And()
            return ast.copy_location(ast.BoolOp(op=op, values=[self._neg(v) for v in e.values]), e)
        return ast.copy_location(ast.UnaryOp(op=ast.Not(), operand=e), e)

    def visit_UnaryOp(self, n):
        self.generic_visit(n)
        if isinstance(n.op, ast.Not):
            o = n.operand
            if isinstance(o, ast.Constant) and isinstance(o.value, bool) and "E19" not in _SKIP:
                return ast.copy_location(ast.Constant(value=not o.value), n)
            if isinstance(o, ast.Compare) and len(o.ops) == 1 and type(o.ops[0]) in (ast.Is, ast.IsNot, ast.Eq, ast.NotEq, ast.In, ast.NotIn):
                return self._neg(o)
            if isinstance(o, ast.BoolOp):
                return self.visit(self._neg(o))
            if isinstance(o, ast.UnaryOp) and isinstance(o.op, ast.Not) and isinstance(o.operand, (ast.Compare, ast.BoolOp)):
                return o.operand
            if isinstance(o, ast.UnaryOp) and isinstance(o.op, ast.Not) and getattr(self, "_bool_ctx", False):
                return o.operand
        return n

    @staticmethod
    def _strip_double_not(t):
        while isinstance(t, ast.UnaryOp) and isinstance(t.op, ast.Not) and isinstance(t.operand, ast.UnaryOp) and isinstance(t.operand.op, ast.Not):
            t = t.operand.operand
        return t

    def visit_If(self, n):
        self.generic_visit(n)
        n.test = self._strip_double_not(n.test)   # `if not not x:` tests the truth of x, like `if x:`
        if isinstance(n.test, ast.Constant) and isinstance(n.test.value, bool) and "E19" not in _SKIP:
            # E19: a test folded to a constant (left behind when the inliner substitutes a defaulted parameter)
            taken = n.body if n.test.value else n.orelse
            return taken if taken else ast.copy_location(ast.Pass(), n)
        return n

    def visit_IfExp(self, n):
        self.generic_visit(n)
        if isinstance(n.test, ast.Constant) and isinstance(n.test.value, bool) and "E19" not in _SKIP:
            return n.body if n.test.value else n.orelse
        return n

    def visit_While(self, n):
        self.generic_visit(n)
        n.test = self._strip_double_not(n.test)
        return n

    def visit_Compare(self, n):
        self.generic_visit(n)
        if len(n.ops) == 1 and isinstance(n.left, ast.Constant) and isinstance(n.comparators[0], ast.Constant) and "E19" not in _SKIP:
            # E19: a comparison of two literals (None / bool / number / string) has one value
            a, b, op = n.left.value, n.comparators[0].value, n.ops[0]
            simple = lambda v: v is None or isinstance(v, (bool, int, str, bytes))
            if simple(a) and simple(b):
                same_kind = type(a) is type(b)
                val = None
                if isinstance(op, (ast.Is, ast.IsNot)) and (a is None or b is None or isinstance(a, bool) and isinstance(b, bool)):
                    val = (a is b) if isinstance(op, ast.Is) else (a is not b)
                elif isinstance(op, (ast.Eq, ast.NotEq)) and (same_kind or a is None or b is None):
                    val = (a == b) if isinstance(op, ast.Eq) else (a != b)
                if val is not None:
                    return ast.copy_location(ast.Constant(value=val), n)
        if len(n.ops) == 1 and type(n.ops[0]) in self.FLIP and isinstance(n.left, ast.Constant) and not isinstance(n.comparators[0], ast.Constant):
            return ast.copy_location(ast.Compare(left=n.comparators[0], ops=[self.FLIP[type(n.ops[0])]()], comparators=[n.left]), n)
        return n

    def visit_BoolOp(self, n):
        self.generic_visit(n)
        if isinstance(n.op, ast.Or) and len(n.values) >= 2:
            # isinstance(x, A) or isinstance(x, B) -> isinstance(x, (A, B))
            calls = n.values
            if all(isinstance(c, ast.Call) and isinstance(c.func, ast.Name) and c.func.id == "isinstance" and len(c.args) == 2 and not c.keywords for c in calls) \
                    and len({ast.dump(c.args[0]) for c in calls}) == 1:
                types = []
                for c in calls:
                    types += list(c.args[1].elts) if isinstance(c.args[1], ast.Tuple) else [c.args[1]]
                new = ast.Call(func=calls[0].func, args=[calls[0].args[0], ast.Tuple(elts=types, ctx=ast.Load())], keywords=[])
                return ast.copy_location(new, n)
        return n

    def visit_Dict(self, n):
        self.generic_visit(n)
        # E28: {**a, **{k: v}} is {**a, k: v}; {**a, **{}} is {**a}
        if "E28" not in _SKIP and any(k is None and isinstance(v, ast.Dict) for k, v in zip(n.keys, n.values)):
            keys, vals = [], []
            for k, v in zip(n.keys, n.values):
                if k is None and isinstance(v, ast.Dict):
                    keys += v.keys
                    vals += v.values
                else:
                    keys.append(k)
                    vals.append(v)
            n.keys, n.values = keys, vals
        return n

    def visit_Subscript(self, n):
        self.generic_visit(n)
        if isinstance(n.slice, ast.Slice) and isinstance(n.slice.lower, ast.Constant) and n.slice.lower.value == 0 and n.slice.step is None:
            n.slice.lower = None
        return n

    def visit_Call(self, n):
        self.generic_visit(n)
        # E25: isinstance(None, X) is False for every class but object / NoneType
        if isinstance(n.func, ast.Name) and n.func.id == "isinstance" and len(n.args) == 2 and not n.keywords and "E25" not in _SKIP \
                and isinstance(n.args[0], ast.Constant) and n.args[0].value is None:
            classes = n.args[1].elts if isinstance(n.args[1], ast.Tuple) else [n.args[1]]
            if classes and all((isinstance(c, ast.Name) and c.id not in ("object", "NoneType")) or
                               (isinstance(c, ast.Attribute) and c.attr not in ("NoneType",)) for c in classes):
                return ast.copy_location(ast.Constant(value=False), n)
        # E32: next(x for x in (a, b, c) if x is not None [, d]) is the first of a, b, c that is not None (the last one standing for
        # "else": a sequence that is exhausted raises StopIteration, which the analysed copy reads as that last value)
        if isinstance(n.func, ast.Name) and n.func.id == "next" and 1 <= len(n.args) <= 2 and not n.keywords and "E32" not in _SKIP \
                and isinstance(n.args[0], ast.GeneratorExp) and len(n.args[0].generators) == 1:
            g = n.args[0].generators[0]
            t = g.ifs[0] if len(g.ifs) == 1 else None
            if isinstance(g.target, ast.Name) and isinstance(n.args[0].elt, ast.Name) and n.args[0].elt.id == g.target.id and isinstance(g.iter, ast.Tuple) \
                    and g.iter.elts and all(_pure(e) for e in g.iter.elts) and isinstance(t, ast.Compare) and len(t.ops) == 1 \
                    and isinstance(t.ops[0], ast.IsNot) and isinstance(t.left, ast.Name) and t.left.id == g.target.id \
                    and isinstance(t.comparators[0], ast.Constant) and t.comparators[0].value is None:
                import copy as _copy
                els = list(g.iter.elts)
                out = _copy.deepcopy(n.args[1]) if len(n.args) == 2 else _copy.deepcopy(els.pop())
                for e in reversed(els):
                    test = ast.Compare(left=_copy.deepcopy(e), ops=[ast.IsNot()], comparators=[ast.Constant(value=None)])
                    out = ast.IfExp(test=test, body=_copy.deepcopy(e), orelse=out)
                return ast.fix_missing_locations(ast.copy_location(out, n))
        if isinstance(n.func, ast.Name) and not n.args and not n.keywords:
            if n.func.id == "dict":
                return ast.copy_location(ast.Dict(keys=[], values=[]), n)
            if n.func.id == "list":
                return ast.copy_location(ast.List(elts=[], ctx=ast.Load()), n)
            if n.func.id == "tuple":
                return ast.copy_location(ast.Tuple(elts=[], ctx=ast.Load()), n)
        return n

    def visit_AugAssign(self, n):
        self.generic_visit(n)
        # E34: `xs += [e]` is `xs.append(e)` (in place, one element at the end)
        if "E34" not in _SKIP and isinstance(n.op, ast.Add) and isinstance(n.target, (ast.Name, ast.Attribute)) and isinstance(n.value, ast.List) \
                and len(n.value.elts) == 1 and not isinstance(n.value.elts[0], ast.Starred):
            recv = ast.copy_location(ast.Name(id=n.target.id, ctx=ast.Load()), n.target) if isinstance(n.target, ast.Name) else \
                ast.copy_location(ast.Attribute(value=n.target.value, attr=n.target.attr, ctx=ast.Load()), n.target)
            call = ast.Call(func=ast.Attribute(value=recv, attr="append", ctx=ast.Load()), args=[n.value.elts[0]], keywords=[])
            return ast.fix_missing_locations(ast.copy_location(ast.Expr(value=ast.copy_location(call, n)), n))
        return n

    def visit_Assign(self, n):
        self.generic_visit(n)
        if len(n.targets) == 1 and isinstance(n.targets[0], (ast.Name, ast.Attribute)) and isinstance(n.value, ast.BinOp) \
                and isinstance(n.value.op, (ast.Add, ast.Sub, ast.BitOr, ast.BitAnd, ast.Mult)) \
                and ast.dump(n.value.left) == ast.dump(n.targets[0]).replace("Store()", "Load()") \
                and not (isinstance(n.targets[0], ast.Name) and (isinstance(n.value.op, (ast.BitOr, ast.BitAnd))
                                                              or isinstance(n.value.right, (ast.List, ast.Set, ast.Dict, ast.Tuple, ast.ListComp, ast.SetComp, ast.DictComp)))):
            # (for a local, `x = x | e` / `x = x + [e]` REBINDS x to a new container while `x |= e` changes the one it
            # shares with whoever else holds it: those are not the same statement and stay as written)
            t = n.targets[0]
            return ast.copy_location(ast.AugAssign(target=t, op=n.value.op, value=n.value.right), n)
        return n


def _split_tuple_assigns(fn):
    """E7: `a, b = x, y` -> `a = x; b = y` when no earlier target is read by a later value.
       E13: `x = x` is dropped."""
    for n in ast.walk(fn):
        for b in _blocks(n):
            out = []
            for s in b:
                if isinstance(s, ast.Assign) and len(s.targets) == 1 and isinstance(s.targets[0], ast.Tuple) and isinstance(s.value, ast.Tuple) \
                        and len(s.targets[0].elts) == len(s.value.elts) and all(isinstance(t, (ast.Name, ast.Attribute)) for t in s.targets[0].elts) \
                        and not any(isinstance(v, ast.Starred) for v in s.value.elts):
                    names = [ast.unparse(t) for t in s.targets[0].elts]
                    ok = True
                    for i, v in enumerate(s.value.elts):
                        used = {ast.unparse(x) for x in ast.walk(v) if isinstance(x, (ast.Name, ast.Attribute))}
                        if used & set(names[:i]) or (i > 0 and any(isinstance(x, ast.Call) for x in ast.walk(v)) and any(isinstance(t, ast.Attribute) for t in s.targets[0].elts[:i])):
                            ok = False
                    if ok:
                        for t, v in zip(s.targets[0].elts, s.value.elts):
                            out.append(ast.copy_location(ast.Assign(targets=[t], value=v), s))
                        continue
                out.append(s)
            out2 = [s for s in out if not (isinstance(s, ast.Assign) and len(s.targets) == 1 and isinstance(s.targets[0], ast.Name)
                                           and isinstance(s.value, ast.Name) and s.value.id == s.targets[0].id)]
            b[:] = out2 if out2 else [ast.copy_location(ast.Pass(), b[0])] if b else b


def _hoist_constant_else(fn):
    """E5': `if c: S else: x = K` (the else branch only binds names to constants, and neither c nor S reads them
    before binding) -> `x = K; if c: S` — the 'default, then override' spelling."""
    for n in ast.walk(fn):
        for b in _blocks(n):
            i = 0
            while i < len(b):
                s = b[i]
                if isinstance(s, ast.If) and s.orelse and all(
                        isinstance(e, ast.Assign) and len(e.targets) == 1 and isinstance(e.targets[0], ast.Name) and isinstance(e.value, ast.Constant)
                        for e in s.orelse):
                    names = {e.targets[0].id for e in s.orelse}
                    reads_test = {x.id for x in ast.walk(s.test) if isinstance(x, ast.Name)}
                    # in the body every one of the names is assigned before it is read (simple check: the
                    # first occurrence of the name in the body is a store in a top-level assignment)
                    ok = not (names & reads_test)
                    for nm in names:
                        first = None
                        for st in s.body:
                            occ = [x for x in ast.walk(st) if isinstance(x, ast.Name) and x.id == nm]
                            if occ:
                                first = st
                                break
                        if first is None:
                            # the then-branch does not bind the name at all: hoisting the else-binding in front of
                            # the `if` would overwrite whatever the name held on the then-path
                            ok = False
                            continue
                        if not (isinstance(first, ast.Assign) and any(isinstance(t, ast.Name) and t.id == nm for t in first.targets)
                                and not any(isinstance(x, ast.Name) and x.id == nm for x in ast.walk(first.value))):
                            ok = False
                    if ok:
                        pre = list(s.orelse)
                        s.orelse = []
                        b[i:i + 1] = pre + [s]
                        i += len(pre)
                i += 1


def _negate(e):
    return _ExprNF().visit(ast.copy_location(ast.UnaryOp(op=ast.Not(), operand=e), e))


def _empty_then(fn):
    """E14: `if T: pass else: B` -> `if not T: B` (negation in normal form)."""
    for n in ast.walk(fn):
        if isinstance(n, ast.If) and n.orelse and all(isinstance(s, ast.Pass) for s in n.body):
            n.test = _negate(n.test)
            n.body, n.orelse = n.orelse, []


def _thread_flag_ifs(fn):
    """E15: a boolean that is bound in every branch of an `if` and tested once, right after it, by an `if` whose
    body is a single jump (return / raise / continue / break) is eliminated:

        if A: f = K            if A: [if K: J]
        else: S; f = E   ==>   else: S; if E: J          (J duplicated; `if False: J` dropped, `if True: J` -> J)
        if f: J
    This is the shape a helper that reports its verdict through a boolean takes once it is inlined."""
    st, ld = _name_counts(fn)
    changed = True
    while changed:
        changed = False
        for n in ast.walk(fn):
            for b in _blocks(n):
                for i in range(len(b) - 1):
                    a, t = b[i], b[i + 1]
                    if not (isinstance(a, ast.If) and a.orelse and isinstance(t, ast.If) and not t.orelse and len(t.body) == 1
                            and isinstance(t.body[0], (ast.Return, ast.Raise, ast.Continue, ast.Break))):
                        continue
                    neg = False
                    tt = t.test
                    if isinstance(tt, ast.UnaryOp) and isinstance(tt.op, ast.Not):
                        tt, neg = tt.operand, True
                    if not isinstance(tt, ast.Name):
                        continue
                    f = tt.id
                    if ld.get(f, 0) != 1:
                        continue

                    def leaves(block, acc):
                        """Collect (block, binding statement) for every leaf of the if-tree that ends `block`."""
                        s_ = block[-1] if block else None
                        if isinstance(s_, ast.Assign) and len(s_.targets) == 1 and isinstance(s_.targets[0], ast.Name) and s_.targets[0].id == f:
                            acc.append((block, s_))
                            return True
                        if isinstance(s_, ast.If) and s_.orelse:
                            return leaves(s_.body, acc) and leaves(s_.orelse, acc)
                        return False
                    acc = []
                    if not (leaves(a.body, acc) and leaves(a.orelse, acc)) or st.get(f, 0) != len(acc):
                        continue
                    import copy as _copy

                    def copy_stmt(s_):
                        return _copy.deepcopy(s_)

                    def rewrite(block, bind):
                        v = bind.value
                        cond = _negate(v) if neg else v
                        block.pop()
                        if isinstance(cond, ast.Constant):
                            if bool(cond.value):
                                block.append(copy_stmt(t.body[0]))
                        else:
                            block.append(ast.copy_location(ast.If(test=cond, body=[copy_stmt(t.body[0])], orelse=[]), bind))
                        if not block:
                            block.append(ast.copy_location(ast.Pass(), bind))
                    for (blk_, bind_) in acc:
                        rewrite(blk_, bind_)
                    del b[i + 1]
                    st, ld = _name_counts(fn)
                    changed = True
                    break
                if changed:
                    break
            if changed:
                break


def _thread_preset_flag(fn):
    """E27: a boolean preset to a constant at the top of the function, set to another constant in one branch and tested right
    after that branch by an `if` whose body is a single jump:

        f = K0                     f = K0
        ...                        ...
        if C: S; f = K1     ==>    if C: S; f = K1; [J if K1]
        if f: J                    else: [J if K0]
    (the flag itself stays: it may be read again later).  Not inside a loop, where the flag could carry over."""
    if "E27" in _SKIP:
        return
    st, _ld = _name_counts(fn)
    import copy as _copy

    def visit(block, in_loop, top_index):
        i = 0
        while i < len(block):
            a = block[i]
            ti = top_index if top_index is not None else i
            if isinstance(a, ast.If) and not a.orelse and not in_loop and i + 1 < len(block):
                t = block[i + 1]
                if isinstance(t, ast.If) and not t.orelse and len(t.body) == 1 and isinstance(t.body[0], (ast.Return, ast.Raise, ast.Continue, ast.Break)):
                    tt, neg = t.test, False
                    if isinstance(tt, ast.UnaryOp) and isinstance(tt.op, ast.Not):
                        tt, neg = tt.operand, True
                    last = a.body[-1] if a.body else None
                    if isinstance(tt, ast.Name) and st.get(tt.id, 0) == 2 and isinstance(last, ast.Assign) and len(last.targets) == 1 \
                            and isinstance(last.targets[0], ast.Name) and last.targets[0].id == tt.id and isinstance(last.value, ast.Constant) \
                            and isinstance(last.value.value, bool):
                        inits = [x for x in fn.body[:ti] if isinstance(x, ast.Assign) and len(x.targets) == 1 and isinstance(x.targets[0], ast.Name)
                                 and x.targets[0].id == tt.id and isinstance(x.value, ast.Constant) and isinstance(x.value.value, bool)]
                        if len(inits) == 1:
                            k1 = bool(last.value.value) != neg
                            k0 = bool(inits[0].value.value) != neg
                            if k1:
                                a.body.append(_copy.deepcopy(t.body[0]))
                            if k0:
                                a.orelse = [_copy.deepcopy(t.body[0])]
                            del block[i + 1]
                            continue
            for fld in ("body", "orelse", "finalbody"):
                sub = getattr(a, fld, None)
                if isinstance(sub, list) and sub and isinstance(sub[0], ast.stmt) and not isinstance(a, FUNC + (ast.ClassDef,)):
                    visit(sub, in_loop or isinstance(a, (ast.For, ast.While, ast.AsyncFor)), ti)
            for h in getattr(a, "handlers", []) or []:
                visit(h.body, in_loop, ti)
            i += 1
    visit(fn.body, False, None)
    ast.fix_missing_locations(fn)


import os as _os
_SKIP = set(filter(None, _os.environ.get("CANON_SKIP", "E10,E11,E17").split(",")))
# E10 / E11 / E17 change the canonical form of functions of the reference tree (1 / 20 / 1 functions) and are held back
# until the rules that look at those functions have been re-validated against them (tools/canon_diff.py)


def _terminates(block) -> bool:
    """Does every path through the statement list end in return / raise / continue / break?"""
    if not block:
        return False
    s = block[-1]
    if isinstance(s, (ast.Return, ast.Raise, ast.Continue, ast.Break)):
        return True
    if isinstance(s, ast.If) and s.orelse:
        return _terminates(s.body) and _terminates(s.orelse)
    return False


def _no_else_after_jump(fn):
    """E11: `if T: A(jumps) else: B`  ->  `if T: A` ; B     (and the mirror image when only the else branch jumps:
    `if T: A else: B(jumps)` -> `if not T: B` ; A).  Guard-clause style is the normal form."""
    changed = True
    while changed:
        changed = False
        for n in ast.walk(fn):
            for b in _blocks(n):
                for i, s in enumerate(b):
                    if isinstance(s, ast.If) and s.orelse and not (len(s.orelse) == 1 and isinstance(s.orelse[0], ast.If) and False):
                        if _terminates(s.body):
                            rest = s.orelse
                            s.orelse = []
                            b[i + 1:i + 1] = rest
                            changed = True
                            break
                        if _terminates(s.orelse) and not _terminates(s.body):
                            body = s.body
                            s.test = _negate(s.test)
                            s.body = s.orelse
                            s.orelse = []
                            b[i + 1:i + 1] = body
                            changed = True
                            break
                if changed:
                    break
            if changed:
                break


def _thread_result_returns(fn):
    """E18: a result variable that is bound at the end of every leaf of an if-tree and only read by the `return`
    that follows is replaced by returns in the leaves:

        if A: r = X            if A: return X
        else: S; r = Y   ==>   S; return Y
        return r
    (also when the variable has a default bound right before the tree: `r = D; if A: r = X` `return r`)."""
    changed = True
    while changed:
        changed = False
        st, ld = _name_counts(fn)
        for n in ast.walk(fn):
            for b in _blocks(n):
                for i in range(len(b) - 1):
                    a, t = b[i], b[i + 1]
                    if not (isinstance(a, ast.If) and isinstance(t, ast.Return) and isinstance(t.value, ast.Name)):
                        continue
                    r = t.value.id
                    if ld.get(r, 0) != 1:
                        continue
                    default = None
                    if not a.orelse:
                        # needs `r = D` right before the if
                        if i == 0:
                            continue
                        d = b[i - 1]
                        if not (isinstance(d, ast.Assign) and len(d.targets) == 1 and isinstance(d.targets[0], ast.Name) and d.targets[0].id == r and _pure(d.value)):
                            continue
                        if any(isinstance(x, ast.Name) and x.id == r for x in ast.walk(a.test)):
                            continue
                        default = d

                    def leaves(block, acc):
                        s_ = block[-1] if block else None
                        if isinstance(s_, ast.Assign) and len(s_.targets) == 1 and isinstance(s_.targets[0], ast.Name) and s_.targets[0].id == r:
                            acc.append((block, s_))
                            return True
                        if isinstance(s_, ast.If) and s_.orelse:
                            return leaves(s_.body, acc) and leaves(s_.orelse, acc)
                        return False
                    acc = []
                    ok = leaves(a.body, acc) and (leaves(a.orelse, acc) if a.orelse else True)
                    n_bind = len(acc) + (1 if default is not None else 0)
                    if not ok or st.get(r, 0) != n_bind:
                        continue
                    for (blk, bind) in acc:
                        blk[-1] = ast.copy_location(ast.Return(value=bind.value), bind)
                    if default is not None:
                        t.value = default.value
                        del b[i - 1]
                    else:
                        del b[i + 1]
                    changed = True
                    break
                if changed:
                    break
            if changed:
                break


def _loops_to_comprehensions(fn):
    """E10: `r = []` ; `for v in it: r.append(E)` / `for v in it: if C: r.append(E)`  ->  `r = [E for v in it if C]`
    (likewise `r = {}` with `r[K] = V`, `r = set()` with `r.add(E)`), when the loop body is exactly that."""
    for n in ast.walk(fn):
        for b in _blocks(n):
            i = 0
            while i < len(b) - 1:
                d, lp = b[i], b[i + 1]
                i += 1
                if not (isinstance(d, ast.Assign) and len(d.targets) == 1 and isinstance(d.targets[0], ast.Name) and isinstance(lp, ast.For) and not lp.orelse):
                    continue
                r = d.targets[0].id
                kind = None
                if isinstance(d.value, ast.List) and not d.value.elts:
                    kind = "list"
                elif isinstance(d.value, ast.Dict) and not d.value.keys:
                    kind = "dict"
                elif isinstance(d.value, ast.Call) and isinstance(d.value.func, ast.Name) and d.value.func.id == "set" and not d.value.args:
                    kind = "set"
                if kind is None or len(lp.body) != 1:
                    continue
                inner = lp.body[0]
                conds = []
                if isinstance(inner, ast.If) and not inner.orelse and len(inner.body) == 1:
                    conds = [inner.test]
                    inner = inner.body[0]
                elt = None
                if kind in ("list", "set") and isinstance(inner, ast.Expr) and isinstance(inner.value, ast.Call) and isinstance(inner.value.func, ast.Attribute) \
                        and isinstance(inner.value.func.value, ast.Name) and inner.value.func.value.id == r and len(inner.value.args) == 1 and not inner.value.keywords \
                        and inner.value.func.attr == ("append" if kind == "list" else "add"):
                    elt = inner.value.args[0]
                    mk = ast.ListComp if kind == "list" else ast.SetComp
                    used = any(isinstance(x, ast.Name) and x.id == r for x in ast.walk(elt)) or any(isinstance(x, ast.Name) and x.id == r for c in conds for x in ast.walk(c)) \
                        or any(isinstance(x, ast.Name) and x.id == r for x in ast.walk(lp.iter))
                    if used:
                        continue
                    comp = mk(elt=elt, generators=[ast.comprehension(target=lp.target, iter=lp.iter, ifs=conds, is_async=0)])
                elif kind == "dict" and isinstance(inner, ast.Assign) and len(inner.targets) == 1 and isinstance(inner.targets[0], ast.Subscript) \
                        and isinstance(inner.targets[0].value, ast.Name) and inner.targets[0].value.id == r:
                    k_, v_ = inner.targets[0].slice, inner.value
                    used = any(isinstance(x, ast.Name) and x.id == r for e_ in [k_, v_, lp.iter] + conds for x in ast.walk(e_))
                    if used:
                        continue
                    comp = ast.DictComp(key=k_, value=v_, generators=[ast.comprehension(target=lp.target, iter=lp.iter, ifs=conds, is_async=0)])
                else:
                    continue
                d.value = ast.copy_location(comp, lp)
                del b[i]
                i -= 1


def _get_with_default(fn):
    """E17: `d[k] if k in d else v` -> `d.get(k, v)` ; `v if k not in d else d[k]` likewise."""
    class T(ast.NodeTransformer):
        def visit_IfExp(self, n):
            self.generic_visit(n)
            t = n.test
            if isinstance(t, ast.Compare) and len(t.ops) == 1 and isinstance(t.ops[0], (ast.In, ast.NotIn)):
                pos, neg = (n.body, n.orelse) if isinstance(t.ops[0], ast.In) else (n.orelse, n.body)
                k, dct = t.left, t.comparators[0]
                if isinstance(pos, ast.Subscript) and ast.dump(pos.value) == ast.dump(dct) and ast.dump(pos.slice) == ast.dump(k) and _pure(dct) and _pure(k):
                    return ast.copy_location(ast.Call(func=ast.Attribute(value=dct, attr="get", ctx=ast.Load()), args=[k, neg], keywords=[]), n)
            return n
    T().visit(fn)


def _plain_assigns(fn):
    """E21: `x: T = v` inside a function is `x = v` (the annotation of a local has no effect at run time).
    E22: `if (n := v) ...:` with the walrus as the test itself, under `not`, or as the left operand of a comparison, is
    `n = v` followed by the test on `n` (the binding is evaluated first and unconditionally)."""
    for n in ast.walk(fn):
        for b in _blocks(n):
            out = []
            for s in b:
                if isinstance(s, ast.AnnAssign) and s.value is not None and s.simple and isinstance(s.target, ast.Name) and "E21" not in _SKIP:
                    # (the annotation is kept as the statement's type comment: the call graph reads local types from it)
                    s = ast.copy_location(ast.Assign(targets=[s.target], value=s.value, type_comment=ast.unparse(s.annotation)), s)
                if isinstance(s, ast.If) and "E22" not in _SKIP:
                    t = s.test
                    holder, attr = None, None
                    if isinstance(t, ast.NamedExpr):
                        holder, attr = s, "test"
                    elif isinstance(t, ast.UnaryOp) and isinstance(t.op, ast.Not) and isinstance(t.operand, ast.NamedExpr):
                        holder, attr = t, "operand"
                    elif isinstance(t, ast.Compare) and isinstance(t.left, ast.NamedExpr):
                        holder, attr = t, "left"
                    if holder is not None:
                        w = getattr(holder, attr)
                        if isinstance(w.target, ast.Name):
                            out.append(ast.copy_location(ast.Assign(targets=[ast.Name(id=w.target.id, ctx=ast.Store())], value=w.value, type_comment=None), s))
                            setattr(holder, attr, ast.copy_location(ast.Name(id=w.target.id, ctx=ast.Load()), w))
                out.append(s)
            b[:] = out


def _ifexp_statements(fn):
    """E20: `return A if c else B` / `v = A if c else B` where an arm contains a call is written as an if statement, so that
    the effects in the arms are statements of their own on the CFG (an arm that cannot run is then visibly unreachable).
    Only for a plain Name / attribute target, and only when the test does not read the target."""
    if "E20" in _SKIP:
        return
    for n in ast.walk(fn):
        for b in _blocks(n):
            out = []
            for s in b:
                v = getattr(s, "value", None)
                if isinstance(s, (ast.Return, ast.Assign)) and isinstance(v, ast.IfExp) \
                        and any(isinstance(x, ast.Call) for arm in (v.body, v.orelse) for x in ast.walk(arm)):
                    if isinstance(s, ast.Assign):
                        if len(s.targets) != 1 or not isinstance(s.targets[0], (ast.Name, ast.Attribute)):
                            out.append(s)
                            continue
                        tgt = ast.unparse(s.targets[0])
                        if any(isinstance(x, (ast.Name, ast.Attribute)) and ast.unparse(x) == tgt for x in ast.walk(v.test)):
                            out.append(s)
                            continue

                        def mk(val, s=s):
                            import copy as _copy
                            return ast.copy_location(ast.Assign(targets=[_copy.deepcopy(s.targets[0])], value=val, type_comment=None), s)
                    else:
                        def mk(val, s=s):
                            return ast.copy_location(ast.Return(value=val), s)
                    out.append(ast.copy_location(ast.If(test=v.test, body=[mk(v.body)], orelse=[mk(v.orelse)]), s))
                    continue
                out.append(s)
            b[:] = out


def _match_statements(fn):
    """E23: `match S: case P [if G]: B ...` is written as the if / elif chain it stands for.  Value patterns (literals, dotted
    names) test `S == V`, class patterns without sub-patterns `isinstance(S, C)`, `None` / `True` / `False` test identity,
    or-patterns are disjunctions, `_` and a bare capture always match (a capture binds the name first).  Any other pattern is
    kept as an opaque test `__match__(S, '<pattern>')` and the names it binds as `name = __capture__(S)`: the structure of the
    statement - which body runs under which case, in order, at most one - is what the analyses need."""
    if not hasattr(ast, "Match") or "E23" in _SKIP:
        return
    import copy as _copy

    def test_of(pat, subj):
        """(test expression or None for always-true, [capture assignments])"""
        if isinstance(pat, ast.MatchValue):
            return ast.Compare(left=_copy.deepcopy(subj), ops=[ast.Eq()], comparators=[pat.value]), []
        if isinstance(pat, ast.MatchSingleton):
            return ast.Compare(left=_copy.deepcopy(subj), ops=[ast.Is()], comparators=[ast.Constant(value=pat.value)]), []
        if isinstance(pat, ast.MatchClass) and not pat.patterns and not pat.kwd_patterns:
            return ast.Call(func=ast.Name(id="isinstance", ctx=ast.Load()), args=[_copy.deepcopy(subj), pat.cls], keywords=[]), []
        if isinstance(pat, ast.MatchAs) and pat.pattern is None:
            if pat.name is None:
                return None, []
            return None, [ast.Assign(targets=[ast.Name(id=pat.name, ctx=ast.Store())], value=_copy.deepcopy(subj), type_comment=None)]
        if isinstance(pat, ast.MatchAs) and pat.pattern is not None and pat.name is not None:
            t, caps = test_of(pat.pattern, subj)
            return t, caps + [ast.Assign(targets=[ast.Name(id=pat.name, ctx=ast.Store())], value=_copy.deepcopy(subj), type_comment=None)]
        if isinstance(pat, ast.MatchOr):
            parts = [test_of(p_, subj) for p_ in pat.patterns]
            if all(c == [] for (_t, c) in parts):
                if any(t is None for (t, _c) in parts):
                    return None, []
                return ast.BoolOp(op=ast.Or(), values=[t for (t, _c) in parts]), []
        names = sorted({x.name for x in ast.walk(pat) if isinstance(x, (ast.MatchAs, ast.MatchStar)) and x.name} |
                       {x.rest for x in ast.walk(pat) if isinstance(x, ast.MatchMapping) and x.rest})
        caps = [ast.Assign(targets=[ast.Name(id=n_, ctx=ast.Store())],
                           value=ast.Call(func=ast.Name(id="__capture__", ctx=ast.Load()), args=[_copy.deepcopy(subj)], keywords=[]), type_comment=None) for n_ in names]
        return ast.Call(func=ast.Name(id="__match__", ctx=ast.Load()), args=[_copy.deepcopy(subj), ast.Constant(value=ast.unparse(pat))], keywords=[]), caps

    for n in ast.walk(fn):
        for b in _blocks(n):
            out = []
            for s in b:
                if not isinstance(s, ast.Match):
                    out.append(s)
                    continue
                subj = s.subject
                pre = []
                if not isinstance(subj, (ast.Name, ast.Attribute, ast.Constant)):
                    tmp = ast.Name(id="__subject_%d__" % getattr(s, "lineno", 0), ctx=ast.Store())
                    pre.append(ast.copy_location(ast.Assign(targets=[tmp], value=subj, type_comment=None), s))
                    subj = ast.Name(id=tmp.id, ctx=ast.Load())
                chain = None
                for case in reversed(s.cases):
                    t, caps = test_of(case.pattern, subj)
                    body = [ast.copy_location(c_, case.pattern) for c_ in caps] + list(case.body)
                    if case.guard is not None:
                        if caps:
                            # the guard reads the captures: bind them inside the pattern test's branch, then test the guard
                            inner = ast.copy_location(ast.If(test=case.guard, body=list(case.body), orelse=[chain] if chain is not None and False else []), case.pattern)
                            body = [ast.copy_location(c_, case.pattern) for c_ in caps] + [inner]
                            # (a failing guard falls through to the later cases only approximately here: keep them reachable)
                            if chain is not None:
                                inner.orelse = [_copy.deepcopy(chain)] if isinstance(chain, ast.stmt) else []
                        else:
                            t = case.guard if t is None else ast.BoolOp(op=ast.And(), values=[t, case.guard])
                    if t is None:
                        # irrefutable: the chain ends here
                        chain = ast.copy_location(ast.If(test=ast.Constant(value=True), body=body, orelse=[]), case.pattern)
                    else:
                        chain = ast.copy_location(ast.If(test=t, body=body, orelse=[chain] if chain is not None else []), case.pattern)
                out += pre + ([chain] if chain is not None else [])
            b[:] = out
    ast.fix_missing_locations(fn)


def _suppress_blocks(fn):
    """E24: `with contextlib.suppress(A, B): BODY` is `try: BODY` / `except (A, B): pass` (that is its definition); written
    that way the CFG has the edge from a raising BODY to the statement after the block."""
    if "E24" in _SKIP:
        return
    for n in ast.walk(fn):
        for b in _blocks(n):
            out = []
            for s in b:
                if isinstance(s, ast.With) and len(s.items) == 1 and s.items[0].optional_vars is None and isinstance(s.items[0].context_expr, ast.Call):
                    c = s.items[0].context_expr
                    nm = c.func.attr if isinstance(c.func, ast.Attribute) else (c.func.id if isinstance(c.func, ast.Name) else None)
                    if nm == "suppress" and c.args and not c.keywords and not any(isinstance(a, ast.Starred) for a in c.args):
                        typ = c.args[0] if len(c.args) == 1 else ast.Tuple(elts=list(c.args), ctx=ast.Load())
                        h = ast.ExceptHandler(type=typ, name=None, body=[ast.copy_location(ast.Pass(), s)])
                        out.append(ast.copy_location(ast.Try(body=s.body, handlers=[ast.copy_location(h, s)], orelse=[], finalbody=[]), s))
                        continue
                out.append(s)
            b[:] = out
    ast.fix_missing_locations(fn)


_NOT_EXCEPTIONS = ("BaseException", "KeyboardInterrupt", "SystemExit", "GeneratorExit")


def _dispatch_of(h):
    """The typed handlers that `except BaseException/Exception as e: if isinstance(e, A): ... elif isinstance(e, B): ... else: ...`
    stands for, or None.  A leading `if not isinstance(e, Exception): raise` narrows what the remaining branches see."""
    if h.name is None or not (isinstance(h.type, ast.Name) and h.type.id in ("BaseException", "Exception")) or not h.body:
        return None
    e = h.name
    # the guard-clause form: `if not isinstance(e, T): raise` and then the statements for a T
    k = 0
    while k < len(h.body) and isinstance(h.body[k], ast.Assign):
        k += 1
    if k < len(h.body) - 1 and isinstance(h.body[k], ast.If) and not h.body[k].orelse and len(h.body[k].body) == 1 \
            and isinstance(h.body[k].body[0], ast.Raise) and h.body[k].body[0].exc is None:
        t0 = h.body[k].test
        c0 = t0.operand if isinstance(t0, ast.UnaryOp) and isinstance(t0.op, ast.Not) else None
        if isinstance(c0, ast.Call) and isinstance(c0.func, ast.Name) and c0.func.id == "isinstance" and len(c0.args) == 2 and not c0.keywords \
                and isinstance(c0.args[0], ast.Name) and c0.args[0].id == e:
            typ0 = c0.args[1]
            names0 = typ0.elts if isinstance(typ0, ast.Tuple) else [typ0]
            rest_body = h.body[k + 1:]
            dead = all(isinstance(st, ast.Assign) and len(st.targets) == 1 and isinstance(st.targets[0], ast.Name)
                       and not any(isinstance(x, ast.Name) and x.id == st.targets[0].id and isinstance(x.ctx, ast.Load) for y in rest_body for x in ast.walk(y))
                       for st in h.body[:k])
            if dead and all(isinstance(x, (ast.Name, ast.Attribute)) for x in names0) \
                    and not any(isinstance(x, ast.Name) and x.id in _NOT_EXCEPTIONS for x in names0):
                return [ast.copy_location(ast.ExceptHandler(type=typ0, name=e, body=rest_body), h)]
    prefix, last = h.body[:-1], h.body[-1]
    if not isinstance(last, ast.If):
        return None
    for st in prefix:
        # a temporary nobody reads (`exc_type = type(e)`)
        v = getattr(st, "value", None)
        typeof = isinstance(v, ast.Call) and isinstance(v.func, ast.Name) and v.func.id == "type" and len(v.args) == 1 and not v.keywords and _pure(v.args[0])
        if not (isinstance(st, ast.Assign) and len(st.targets) == 1 and isinstance(st.targets[0], ast.Name) and (_pure(v) or typeof)):
            return None
        if any(isinstance(x, ast.Name) and x.id == st.targets[0].id and isinstance(x.ctx, ast.Load) for x in ast.walk(last)):
            return None
    rest = h.type.id
    out = []
    cur = last
    while True:
        t = cur.test
        neg = isinstance(t, ast.UnaryOp) and isinstance(t.op, ast.Not)
        c = t.operand if neg else t
        if not (isinstance(c, ast.Call) and isinstance(c.func, ast.Name) and c.func.id == "isinstance" and len(c.args) == 2 and not c.keywords
                and isinstance(c.args[0], ast.Name) and c.args[0].id == e):
            return None
        typ = c.args[1]
        if neg:
            if not (isinstance(typ, ast.Name) and typ.id == "Exception" and rest == "BaseException" and not out
                    and len(cur.body) == 1 and isinstance(cur.body[0], ast.Raise) and cur.body[0].exc is None):
                return None
            rest = "Exception"
        else:
            names = typ.elts if isinstance(typ, ast.Tuple) else [typ]
            if not all(isinstance(x, (ast.Name, ast.Attribute)) for x in names) or any(isinstance(x, ast.Name) and x.id in _NOT_EXCEPTIONS for x in names):
                return None
            out.append(ast.copy_location(ast.ExceptHandler(type=typ, name=e, body=cur.body), cur))
        if len(cur.orelse) == 1 and isinstance(cur.orelse[0], ast.If):
            cur = cur.orelse[0]
            continue
        tail = cur.orelse or [ast.copy_location(ast.Pass(), cur)]
        if len(tail) == 1 and isinstance(tail[0], ast.Raise) and tail[0].exc is None and tail[0].cause is None and out:
            return out   # what is left is caught only to be raised again
        out.append(ast.copy_location(ast.ExceptHandler(type=ast.copy_location(ast.Name(id=rest, ctx=ast.Load()), h), name=e, body=tail), h))
        return out


def _split_update_displays(fn):
    """E29: `X.update({**A, k: v})` (X, A, k, v pure) is `X.update(A)` followed by `X[k] = v`: entries land in that order"""
    if "E29" in _SKIP:
        return
    for n in ast.walk(fn):
        for b in _blocks(n):
            out = []
            for s_ in b:
                c = s_.value if isinstance(s_, ast.Expr) else None
                if isinstance(c, ast.Call) and isinstance(c.func, ast.Attribute) and c.func.attr == "update" and len(c.args) == 1 and not c.keywords \
                        and isinstance(c.args[0], ast.Dict) and _pure(c.func.value) and len(c.args[0].keys) >= 2 \
                        and all((k is None or _pure(k)) and _pure(v) for k, v in zip(c.args[0].keys, c.args[0].values)) \
                        and sum(1 for k in c.args[0].keys if k is None) >= 1:
                    for k, v in zip(c.args[0].keys, c.args[0].values):
                        if k is None:
                            call = ast.Call(func=ast.Attribute(value=c.func.value, attr="update", ctx=ast.Load()), args=[v], keywords=[])
                            out.append(ast.copy_location(ast.Expr(value=call), s_))
                        else:
                            tgt = ast.Subscript(value=c.func.value, slice=k, ctx=ast.Store())
                            out.append(ast.copy_location(ast.Assign(targets=[tgt], value=v), s_))
                    continue
                out.append(s_)
            b[:] = out
    ast.fix_missing_locations(fn)


def _display_then_update(fn):
    """E30: `t = {...}` directly followed by `t.update(X)` / `t.update(k=v)` / `t[k] = v` (X a pure name or a display, k, v pure) is the
    one display `t = {..., **X}` / `{..., 'k': v}`: later entries win in a display as they do in an update"""
    if "E30" in _SKIP:
        return
    for n in ast.walk(fn):
        for b in _blocks(n):
            i = 0
            while i + 1 < len(b):
                s1, s2 = b[i], b[i + 1]
                if isinstance(s1, ast.Assign) and len(s1.targets) == 1 and isinstance(s1.targets[0], ast.Name) and isinstance(s1.value, ast.Dict):
                    t = s1.targets[0].id
                    c = s2.value if isinstance(s2, ast.Expr) else None
                    mentions_t = lambda e: any(isinstance(x, ast.Name) and x.id == t for x in ast.walk(e))
                    if isinstance(c, ast.Call) and isinstance(c.func, ast.Attribute) and c.func.attr == "update" and isinstance(c.func.value, ast.Name) \
                            and c.func.value.id == t and len(c.args) <= 1 and all(k.arg is not None and _pure(k.value) for k in c.keywords) \
                            and all((_pure(a) or _fresh_display(a)) and not mentions_t(a) for a in c.args) and not any(mentions_t(k.value) for k in c.keywords):
                        for a in c.args:
                            s1.value.keys.append(None)
                            s1.value.values.append(a)
                        for k in c.keywords:
                            s1.value.keys.append(ast.copy_location(ast.Constant(value=k.arg), k.value))
                            s1.value.values.append(k.value)
                        del b[i + 1]
                        continue
                    if isinstance(s2, ast.Assign) and len(s2.targets) == 1 and isinstance(s2.targets[0], ast.Subscript) and isinstance(s2.targets[0].value, ast.Name) \
                            and s2.targets[0].value.id == t and _pure(s2.targets[0].slice) and _pure(s2.value) and not mentions_t(s2.value) and not mentions_t(s2.targets[0].slice):
                        s1.value.keys.append(s2.targets[0].slice)
                        s1.value.values.append(s2.value)
                        del b[i + 1]
                        continue
                i += 1
    ast.fix_missing_locations(fn)


def _counted_while(fn):
    """E31: a counted `while`            i = 0                          for i in range(0, N):
                                          while i < N:          ==>         BODY
                                              BODY; i += 1
    N a pure expression (`len(xs)` of a name included) that BODY cannot change: the names in N are neither re-bound in BODY nor
    receivers / arguments of a call there; BODY has no `continue`, does not bind i; i is not read after the loop."""
    if "E31" in _SKIP:
        return
    for n in ast.walk(fn):
        for b in _blocks(n):
            i = 0
            while i + 1 < len(b):
                a, w = b[i], b[i + 1]
                i += 1
                if not (isinstance(a, ast.Assign) and len(a.targets) == 1 and isinstance(a.targets[0], ast.Name) and isinstance(a.value, ast.Constant)
                        and type(a.value.value) is int and isinstance(w, ast.While) and not w.orelse and w.body):
                    continue
                v = a.targets[0].id
                t = w.test
                if not (isinstance(t, ast.Compare) and len(t.ops) == 1 and isinstance(t.ops[0], ast.Lt) and isinstance(t.left, ast.Name) and t.left.id == v):
                    continue
                bound = t.comparators[0]
                lenof = isinstance(bound, ast.Call) and isinstance(bound.func, ast.Name) and bound.func.id == "len" and len(bound.args) == 1 \
                    and not bound.keywords and isinstance(bound.args[0], ast.Name)
                if not (_pure(bound) or lenof):
                    continue
                last = w.body[-1]
                if not (isinstance(last, ast.AugAssign) and isinstance(last.op, ast.Add) and isinstance(last.target, ast.Name) and last.target.id == v
                        and isinstance(last.value, ast.Constant) and last.value.value == 1 and type(last.value.value) is int):
                    continue
                body = w.body[:-1]
                if not body:
                    continue
                inner = [x for st_ in body for x in ast.walk(st_)]
                if any(isinstance(x, (ast.Continue, ast.Lambda, ast.FunctionDef, ast.AsyncFunctionDef)) for x in inner):
                    continue
                if any(isinstance(x, ast.Name) and x.id == v and isinstance(x.ctx, (ast.Store, ast.Del)) for x in inner):
                    continue
                names = {x.id for x in ast.walk(bound) if isinstance(x, ast.Name)} - {"len"}
                touched = False
                for x in inner:
                    if isinstance(x, ast.Name) and x.id in names and isinstance(x.ctx, (ast.Store, ast.Del)):
                        touched = True
                    if isinstance(x, ast.Call):
                        recv = x.func.value if isinstance(x.func, ast.Attribute) else None
                        for y in ([recv] if recv is not None else []) + list(x.args) + [k.value for k in x.keywords]:
                            if any(isinstance(z, ast.Name) and z.id in names for z in ast.walk(y)):
                                touched = True
                    if isinstance(x, (ast.Assign, ast.AugAssign, ast.Delete)):
                        for tg in (x.targets if isinstance(x, (ast.Assign, ast.Delete)) else [x.target]):
                            if isinstance(tg, (ast.Subscript, ast.Attribute)) and any(isinstance(z, ast.Name) and z.id in names for z in ast.walk(tg.value)):
                                touched = True
                if touched:
                    continue
                # i is not looked at after the loop (it would be N there, not N - 1)
                later = [x for st_ in b[b.index(w) + 1:] for x in ast.walk(st_) if isinstance(x, ast.Name) and x.id == v]
                total = [x for x in ast.walk(fn) if isinstance(x, ast.Name) and x.id == v]
                inside = [x for x in ast.walk(w) if isinstance(x, ast.Name) and x.id == v]
                if later or len(total) != len(inside) + 1:
                    continue
                rng = ast.Call(func=ast.Name(id="range", ctx=ast.Load()), args=[a.value, bound], keywords=[])
                loop = ast.For(target=ast.Name(id=v, ctx=ast.Store()), iter=rng, body=body, orelse=[])
                ast.copy_location(loop, w)
                ast.fix_missing_locations(loop)
                k = b.index(w)
                b[k - 1:k + 1] = [loop]
                i = max(k - 1, 0)
    ast.fix_missing_locations(fn)


_E32_COUNTER = [0]


def _first_non_none(fn):
    """E32 (statement level): `v = next(x for x in (a, f(), c) if x is not None)`: the tuple is built first (every element evaluated,
    in order), then the first element that is not None is taken.  Elements that are not pure are given temporaries."""
    if "E32" in _SKIP:
        return
    import copy as _copy
    for n in ast.walk(fn):
        for b in _blocks(n):
            out = []
            for s_ in b:
                c = s_.value if isinstance(s_, (ast.Assign, ast.Return)) else None
                ok = isinstance(c, ast.Call) and isinstance(c.func, ast.Name) and c.func.id == "next" and 1 <= len(c.args) <= 2 and not c.keywords \
                    and isinstance(c.args[0], ast.GeneratorExp) and len(c.args[0].generators) == 1
                if ok:
                    g = c.args[0].generators[0]
                    t = g.ifs[0] if len(g.ifs) == 1 else None
                    ok = isinstance(g.target, ast.Name) and isinstance(c.args[0].elt, ast.Name) and c.args[0].elt.id == g.target.id \
                        and isinstance(g.iter, ast.Tuple) and g.iter.elts and not any(isinstance(e, ast.Starred) for e in g.iter.elts) \
                        and isinstance(t, ast.Compare) and len(t.ops) == 1 and isinstance(t.ops[0], ast.IsNot) and isinstance(t.left, ast.Name) \
                        and t.left.id == g.target.id and isinstance(t.comparators[0], ast.Constant) and t.comparators[0].value is None \
                        and (len(c.args) == 1 or _pure(c.args[1]))
                if not ok:
                    out.append(s_)
                    continue
                els = []
                for e in g.iter.elts:
                    if _pure(e):
                        els.append(e)
                    else:
                        _E32_COUNTER[0] += 1
                        nm = "cand__e%d" % _E32_COUNTER[0]
                        out.append(ast.copy_location(ast.Assign(targets=[ast.Name(id=nm, ctx=ast.Store())], value=e), s_))
                        els.append(ast.Name(id=nm, ctx=ast.Load()))
                res = _copy.deepcopy(c.args[1]) if len(c.args) == 2 else _copy.deepcopy(els.pop())
                for e in reversed(els):
                    test = ast.Compare(left=_copy.deepcopy(e), ops=[ast.IsNot()], comparators=[ast.Constant(value=None)])
                    res = ast.IfExp(test=test, body=_copy.deepcopy(e), orelse=res)
                s_.value = ast.copy_location(res, c)
                out.append(s_)
            b[:] = out
    ast.fix_missing_locations(fn)


def _handler_dispatch(fn):
    """E26: a catch-all handler that dispatches on the class of what it caught is the list of typed handlers"""
    if "E26" in _SKIP:
        return
    for n in ast.walk(fn):
        if isinstance(n, ast.Try) and n.handlers:
            new = []
            for i, h in enumerate(n.handlers):
                rep = _dispatch_of(h) if i == len(n.handlers) - 1 else None
                new += rep if rep else [h]
            n.handlers = new
    ast.fix_missing_locations(fn)


def _canon_function(fn):
    _counted_while(fn)
    _display_then_update(fn)
    _match_statements(fn)
    _suppress_blocks(fn)
    _handler_dispatch(fn)
    _plain_assigns(fn)
    for _round in range(4):   # an arm may itself be a conditional expression with a call
        before_ = sum(1 for x in ast.walk(fn) if isinstance(x, ast.IfExp))
        _ifexp_statements(fn)
        if sum(1 for x in ast.walk(fn) if isinstance(x, ast.IfExp)) == before_:
            break
    _split_withs(fn)
    _thread_flag_ifs(fn)
    _thread_preset_flag(fn)
    if "E18" not in _SKIP:
        _thread_result_returns(fn)
    if "E10" not in _SKIP:
        _loops_to_comprehensions(fn)
    if "E17" not in _SKIP:
        _get_with_default(fn)
    if "E11" not in _SKIP:
        _no_else_after_jump(fn)
    _empty_then(fn)
    _ExprNF().visit(fn)
    _split_tuple_assigns(fn)
    _hoist_constant_else(fn)
    ast.fix_missing_locations(fn)
    again = True
    while again:
        again = False
        st, ld = _name_counts(fn)
        for n in ast.walk(fn):
            if n is not fn and isinstance(n, FUNC + (ast.ClassDef,)):
                continue  # nested scopes are handled as functions of their own (counts above are global to fn, which is conservative)
            for b in _blocks(n):
                if _inline_block(b, st, ld):
                    again = True
    # N3: a `pass` in a block that has other statements does nothing
    for n in ast.walk(fn):
        for b in _blocks(n):
            if len(b) > 1 and any(isinstance(x, ast.Pass) for x in b):
                keep = [x for x in b if not isinstance(x, ast.Pass)]
                b[:] = keep if keep else b[:1]
    for n in ast.walk(fn):
        if isinstance(n, ast.If) and n.orelse and not (len(n.orelse) == 1 and isinstance(n.orelse[0], ast.If)) \
                and isinstance(n.test, ast.UnaryOp) and isinstance(n.test.op, ast.Not):
            n.test = n.test.operand
            n.body, n.orelse = n.orelse, n.body
    _ExprNF().visit(fn)
    _split_update_displays(fn)
    _first_non_none(fn)
    _thread_preset_flag(fn)
    _handler_dispatch(fn)


def canonicalise(tree):
    for n in ast.walk(tree):
        if isinstance(n, FUNC):
            _canon_function(n)
    return tree
