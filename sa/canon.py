"""Normal form the rules are evaluated on.

Two behaviour-preserving rewrites are undone before any rule looks at a function, so that a
rule sees the same tree whether or not a developer introduced a temporary right in front of a
`return` / `if`, or wrote an `if` / `else` with the branches the other way round:

  N1  t = E                      return E            (t a plain local, assigned once in the function,
      return t          ==>                           loaded exactly once: in that return / if test,
                                                      which is the statement that follows)
      t = E
      if t: ...         ==>      if E: ...

  N2  if not T: A                if T: B             (else present and not an elif chain)
      else: B           ==>      else: A

  N1b t = P                      S[P]                (P pure: names / attribute chains / constant subscripts;
      S[t]              ==>                           S the next simple statement, using t once, outside any
                                                      lambda / comprehension)

  N3  `pass` is dropped from every block that has another statement.

  N4  `with A, B as v: body` is written as the nested `with A: with B as v: body`.

All are applied until nothing changes.  Locations are kept (the merged statement
keeps the position of the `return` / `if`; the expression keeps its own), so reports still
point into the real source.  `# type:` comments of a removed temporary are dropped: no rule
reads the type of a single-use temporary.
"""
import ast

FUNC = (ast.FunctionDef, ast.AsyncFunctionDef)


def _name_counts(fn):
    """name -> (stores, loads) over the whole function, nested scopes included (a name captured by
    a closure counts as a load, which keeps us from inlining it)."""
    st, ld = {}, {}
    for n in ast.walk(fn):
        if isinstance(n, ast.Name):
            d = st if isinstance(n.ctx, (ast.Store, ast.Del)) else ld
            d[n.id] = d.get(n.id, 0) + 1
        elif isinstance(n, ast.arg):
            st[n.arg] = st.get(n.arg, 0) + 1
        elif isinstance(n, (ast.Global, ast.Nonlocal)):
            for x in n.names:
                st[x] = st.get(x, 0) + 2
        elif isinstance(n, ast.ExceptHandler) and n.name:
            st[n.name] = st.get(n.name, 0) + 1
        elif isinstance(n, (ast.Import, ast.ImportFrom)):
            for a in n.names:
                nm = (a.asname or a.name).split(".")[0]
                st[nm] = st.get(nm, 0) + 1
    return st, ld


def _inline_block(body, st, ld):
    changed = False
    out = []
    i = 0
    while i < len(body):
        s = body[i]
        nxt = body[i + 1] if i + 1 < len(body) else None
        if (isinstance(s, ast.Assign) and len(s.targets) == 1 and isinstance(s.targets[0], ast.Name) and nxt is not None):
            t = s.targets[0].id
            if st.get(t, 0) == 1 and ld.get(t, 0) == 1:
                if isinstance(nxt, ast.Return) and isinstance(nxt.value, ast.Name) and nxt.value.id == t:
                    nxt.value = s.value
                    changed = True
                    i += 1
                    continue
                if isinstance(nxt, ast.If) and isinstance(nxt.test, ast.Name) and nxt.test.id == t:
                    nxt.test = s.value
                    changed = True
                    i += 1
                    continue
                # N1b: a PURE temporary (names, attribute chains, constant subscripts: nothing that can
                # have an effect, so evaluation order does not matter) used once in the next simple statement
                if _pure(s.value) and isinstance(nxt, (ast.Return, ast.Assign, ast.AugAssign, ast.Expr, ast.Raise, ast.Assert, ast.If)) \
                        and not _reads_written(s.value, nxt):
                    scope = [nxt.test] if isinstance(nxt, ast.If) else [nxt]
                    uses = [n for sc in scope for n in ast.walk(sc) if isinstance(n, ast.Name) and n.id == t and isinstance(n.ctx, ast.Load)]
                    inner = [n for sc in scope for x in ast.walk(sc) if isinstance(x, (ast.Lambda, ast.ListComp, ast.SetComp, ast.DictComp, ast.GeneratorExp))
                             for n in ast.walk(x) if isinstance(n, ast.Name) and n.id == t]
                    if len(uses) == 1 and not inner and not _call_before(scope, uses[0]):
                        _replace(scope, uses[0], s.value)
                        changed = True
                        i += 1
                        continue
        out.append(s)
        i += 1
    body[:] = out
    return changed


def _call_before(scope, use):
    """Is some call of the statement completely to the left of `use` (and therefore evaluated before
    it)?  Such a call could change what the temporary's expression reads; decline then."""
    up = (use.lineno, use.col_offset)
    for sc in scope:
        for n in ast.walk(sc):
            if isinstance(n, (ast.Call, ast.Await, ast.Yield, ast.YieldFrom, ast.NamedExpr)) and hasattr(n, "end_lineno") \
                    and (n.end_lineno, n.end_col_offset) <= up:
                return True
    return False


def _pure(e):
    if isinstance(e, (ast.Name, ast.Constant)):
        return True
    if isinstance(e, ast.Attribute):
        return _pure(e.value)
    if isinstance(e, ast.Subscript):
        return _pure(e.value) and isinstance(e.slice, (ast.Constant, ast.Name))
    return False


def _reads_written(value, stmt):
    """Does `stmt` assign something that `value` reads?  (x = a.b ; a.b = f(x): inlining is still
    fine because the right-hand side is evaluated first, but keep it simple and decline.)"""
    reads = {ast.unparse(n) for n in ast.walk(value) if isinstance(n, (ast.Name, ast.Attribute, ast.Subscript))}
    targets = []
    if isinstance(stmt, ast.Assign):
        targets = stmt.targets
    elif isinstance(stmt, ast.AugAssign):
        targets = [stmt.target]
    for t in targets:
        for n in ast.walk(t):
            if isinstance(n, (ast.Name, ast.Attribute, ast.Subscript)) and ast.unparse(n) in reads:
                return True
    return False


def _replace(scope, target, value):
    class R(ast.NodeTransformer):
        def visit_Name(self, n):
            return value if n is target else n
    for i, sc in enumerate(scope):
        R().visit(sc)


def _blocks(node):
    for f in ("body", "orelse", "finalbody"):
        b = getattr(node, f, None)
        if isinstance(b, list) and b and isinstance(b[0], ast.stmt):
            yield b
    if isinstance(node, ast.Try):
        for h in node.handlers:
            yield h.body
    if hasattr(ast, "Match") and isinstance(node, getattr(ast, "Match")):
        for c in node.cases:
            yield c.body


def _split_withs(fn):
    """N4: `with A, B as v: body`  ==>  `with A: with B as v: body` (the language defines them as equal)."""
    for n in ast.walk(fn):
        if isinstance(n, ast.With) and len(n.items) > 1:
            inner = ast.With(items=n.items[1:], body=n.body, type_comment=None)
            ast.copy_location(inner, n)
            n.items = n.items[:1]
            n.body = [inner]
    # ast.walk visits the freshly made inner node later, so longer item lists are split fully


def _canon_function(fn):
    _split_withs(fn)
    again = True
    while again:
        again = False
        st, ld = _name_counts(fn)
        for n in ast.walk(fn):
            if n is not fn and isinstance(n, FUNC + (ast.ClassDef,)):
                continue  # nested scopes are handled as functions of their own (counts above are global to fn, which is conservative)
            for b in _blocks(n):
                if _inline_block(b, st, ld):
                    again = True
    # N3: a `pass` in a block that has other statements does nothing
    for n in ast.walk(fn):
        for b in _blocks(n):
            if len(b) > 1 and any(isinstance(x, ast.Pass) for x in b):
                keep = [x for x in b if not isinstance(x, ast.Pass)]
                b[:] = keep if keep else b[:1]
    for n in ast.walk(fn):
        if isinstance(n, ast.If) and n.orelse and not (len(n.orelse) == 1 and isinstance(n.orelse[0], ast.If)) \
                and isinstance(n.test, ast.UnaryOp) and isinstance(n.test.op, ast.Not):
            n.test = n.test.operand
            n.body, n.orelse = n.orelse, n.body


def canonicalise(tree):
    for n in ast.walk(tree):
        if isinstance(n, FUNC):
            _canon_function(n)
    return tree
