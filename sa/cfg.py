"""Statement-level control-flow graph for one function.

Nodes are simple statements, branch tests (`if`/`while` tests), `for` heads, `with` heads
and `except` heads.  `finally` bodies are duplicated once per continuation kind (normal,
exception, return, break, continue), so a path through the graph is a feasible syntactic
path.  Path rules are decided by reachability with nodes/edges removed:

  "every path from A to B passes through some node of S"  <=>  B unreachable from A in G - S.

Exception edges: in mode 'explicit' only `raise`/`assert` and call-carrying statements that
sit lexically inside a `try` raise; in mode 'all' every statement that contains a call,
subscript or attribute access may raise to the innermost handler / finally / raise-exit.
"""
import ast
from typing import Callable, Dict, Iterable, List, Optional, Set, Tuple

from .astutil import walk_local, norm, FUNC_TYPES
from .loader import AnalysisError

CATCH_ALL = {"Exception", "BaseException"}


class Node:
    __slots__ = ("id", "kind", "ast", "copy")

    def __init__(self, id, kind, astnode, copy=""):
        self.id = id
        self.kind = kind  # entry exit raise stmt test for with except
        self.ast = astnode
        self.copy = copy  # which finally-copy this node lives in ('' = primary)

    def __repr__(self):
        return "<%d %s %s>" % (self.id, self.kind, norm(self.ast)[:60] if self.ast is not None else "")


class _Frame:
    def __init__(self, kind, parent, **kw):
        self.kind = kind  # 'try' 'finally' 'loop'
        self.parent = parent
        self.__dict__.update(kw)
        self.copies = {}


class CFG:
    def __init__(self, func_node, exc_mode="explicit", nonraising: Optional[Callable] = None):
        self.func = func_node
        self.exc_mode = exc_mode
        self.nonraising = nonraising
        self.nodes: List[Node] = []
        self.succ: Dict[int, List[Tuple[int, str]]] = {}
        self.pred: Dict[int, List[Tuple[int, str]]] = {}
        self.entry = self._new("entry", None)
        self.exit = self._new("exit", None)
        self.raise_exit = self._new("raise", None)
        self._copy = ""
        self._try_depth = 0
        out = self._seq(func_node.body, [(self.entry, "")], None)
        self._connect(out, self.exit)
        self.flags: List[str] = []
        self._thread_flags()
        self._index()

    # ---- construction -------------------------------------------------------------
    def _new(self, kind, astnode) -> int:
        n = Node(len(self.nodes), kind, astnode, getattr(self, "_copy", ""))
        self.nodes.append(n)
        self.succ[n.id] = []
        self.pred[n.id] = []
        return n.id

    def _edge(self, a, b, label=""):
        if (b, label) not in self.succ[a]:
            self.succ[a].append((b, label))
            self.pred[b].append((a, label))

    def _connect(self, pending, dst):
        for (src, label) in pending:
            self._edge(src, dst, label)

    def _may_raise(self, st) -> bool:
        if isinstance(st, (ast.Raise, ast.Assert)):
            return True
        if isinstance(st, (ast.Pass, ast.Break, ast.Continue, ast.Global, ast.Nonlocal)):
            return False
        if isinstance(st, FUNC_TYPES + (ast.ClassDef,)):
            return False
        kinds = (ast.Call,) if self.exc_mode == "explicit" else (ast.Call, ast.Subscript, ast.Attribute)
        if self.exc_mode == "explicit" and self._try_depth == 0:
            return False
        for n in walk_local(st):
            if isinstance(n, kinds):
                if self.nonraising is not None and self.nonraising(n):
                    continue
                return True
        return False

    def _raise_from(self, src, frame, label="exc"):
        """Route an exception raised at node `src` outward through the frames."""
        pending = [(src, label)]
        f = frame
        while f is not None:
            if f.kind == "try":
                for h in f.handler_nodes:
                    self._connect(pending, h)
                if f.catch_all:
                    return
            elif f.kind == "finally":
                pending = self._through_finally(f, "exc", pending)
            f = f.parent
        self._connect(pending, self.raise_exit)

    def _through_finally(self, f, kind, pending):
        """Connect pending edges to the copy of the finally body for `kind`; return the
        pending edges that leave that copy."""
        if kind not in f.copies:
            saved_copy, saved_depth = self._copy, self._try_depth
            self._copy = (saved_copy + "/" if saved_copy else "") + "finally-" + kind + "@%d" % f.node.lineno
            self._try_depth = f.depth
            head = self._new("stmt", ast.Pass())  # join point
            out = self._seq(f.node.finalbody, [(head, "")], f.parent)
            self._copy, self._try_depth = saved_copy, saved_depth
            f.copies[kind] = (head, out)
        head, out = f.copies[kind]
        self._connect(pending, head)
        return list(out)

    def _route(self, src_pending, frame, kind):
        """Route return/break/continue outward. Returns (pending, loop_frame)."""
        pending = list(src_pending)
        f = frame
        while f is not None:
            if f.kind == "finally":
                pending = self._through_finally(f, kind, pending)
            elif f.kind == "loop" and kind in ("break", "continue"):
                return pending, f
            f = f.parent
        return pending, None

    def _seq(self, stmts, pending, frame):
        for st in stmts:
            pending = self._stmt(st, pending, frame)
        return pending

    def _simple(self, st, pending, frame, kind="stmt"):
        n = self._new(kind, st)
        self._connect(pending, n)
        if self._may_raise(st):
            self._raise_from(n, frame)
        return n

    def _stmt(self, st, pending, frame):
        if isinstance(st, ast.If):
            t = self._new("test", st.test)
            self._connect(pending, t)
            if self._may_raise(ast.Expr(st.test)):
                self._raise_from(t, frame)
            a = self._seq(st.body, [(t, "T")], frame)
            b = self._seq(st.orelse, [(t, "F")], frame)
            return a + b
        if isinstance(st, ast.While):
            t = self._new("test", st.test)
            self._connect(pending, t)
            if self._may_raise(ast.Expr(st.test)):
                self._raise_from(t, frame)
            lf = _Frame("loop", frame, breaks=[], head=t)
            body_out = self._seq(st.body, [(t, "T")], lf)
            for (s, l) in body_out:
                self._edge(s, t, l or "back")
            always = isinstance(st.test, ast.Constant) and bool(st.test.value)
            out = [] if always else self._seq(st.orelse, [(t, "F")], frame)
            return out + lf.breaks
        if isinstance(st, (ast.For, ast.AsyncFor)):
            h = self._new("for", st)
            self._connect(pending, h)
            if self._may_raise(ast.Expr(st.iter)):
                self._raise_from(h, frame)
            lf = _Frame("loop", frame, breaks=[], head=h)
            body_out = self._seq(st.body, [(h, "T")], lf)
            for (s, l) in body_out:
                self._edge(s, h, l or "back")
            out = self._seq(st.orelse, [(h, "F")], frame)
            return out + lf.breaks
        if isinstance(st, (ast.With, ast.AsyncWith)):
            w = self._new("with", st)
            self._connect(pending, w)
            if self._may_raise(ast.Expr(ast.Tuple([i.context_expr for i in st.items], ast.Load()))):
                self._raise_from(w, frame)
            return self._seq(st.body, [(w, "")], frame)
        if isinstance(st, ast.Try) or (hasattr(ast, "TryStar") and isinstance(st, getattr(ast, "TryStar"))):
            fin = None
            outer = frame
            if st.finalbody:
                fin = _Frame("finally", frame, node=st, depth=self._try_depth)
                outer = fin
            handler_nodes = []
            catch_all = False
            for h in st.handlers:
                hn = self._new("except", h)
                handler_nodes.append(hn)
                tname = norm(h.type) if h.type is not None else None
                if tname is None or tname in CATCH_ALL:
                    catch_all = True
            tf = _Frame("try", outer, handler_nodes=handler_nodes, catch_all=catch_all) if st.handlers else outer
            self._try_depth += 1
            body_out = self._seq(st.body, pending, tf)
            self._try_depth -= 1
            if st.finalbody:
                self._try_depth += 1  # handler/else bodies still inside try-finally
            else_out = self._seq(st.orelse, body_out, outer)
            outs = list(else_out)
            for h, hn in zip(st.handlers, handler_nodes):
                outs += self._seq(h.body, [(hn, "")], outer)
            if st.finalbody:
                self._try_depth -= 1
                outs = self._through_finally(fin, "normal", outs)
            return outs
        if isinstance(st, ast.Return):
            n = self._simple(st, pending, frame)
            p, _ = self._route([(n, "return")], frame, "return")
            self._connect(p, self.exit)
            return []
        if isinstance(st, ast.Raise):
            self._simple(st, pending, frame)
            return []
        if isinstance(st, ast.Break):
            n = self._simple(st, pending, frame)
            p, lf = self._route([(n, "break")], frame, "break")
            if lf is None:
                raise AnalysisError("break outside loop")
            lf.breaks.extend(p)
            return []
        if isinstance(st, ast.Continue):
            n = self._simple(st, pending, frame)
            p, lf = self._route([(n, "continue")], frame, "continue")
            if lf is None:
                raise AnalysisError("continue outside loop")
            for (s, l) in p:
                self._edge(s, lf.head, l)
            return []
        if hasattr(ast, "Match") and isinstance(st, ast.Match):
            raise AnalysisError("match statement not supported by the CFG builder")
        n = self._simple(st, pending, frame)
        return [(n, "")]

    # ---- flag threading ------------------------------------------------------------
    def _find_flags(self) -> List[str]:
        """Locals that are only ever bound by `x = True / False / None` and that some branch test
        reads: the graph is split per value of these, so that `ok = False ... if not ok: return`
        is followed path-sensitively (a helper that reports success through a boolean, once inlined,
        has exactly this shape)."""
        binds: Dict[str, List] = {}
        bad: Set[str] = set()
        a = self.func.args
        # (a parameter that the body only ever re-binds to True / False / None can be threaded too: its value at
        # entry is simply unknown)
        for x in ([a.vararg] if a.vararg else []) + ([a.kwarg] if a.kwarg else []):
            bad.add(x.arg)
        const_targets = set()
        for n in walk_local(self.func, include_root=False):
            if isinstance(n, ast.Assign) and len(n.targets) == 1 and isinstance(n.targets[0], ast.Name) \
                    and isinstance(n.value, ast.Constant) and (n.value.value is None or isinstance(n.value.value, bool)):
                binds.setdefault(n.targets[0].id, []).append(n)
                const_targets.add(id(n.targets[0]))
            elif isinstance(n, (ast.Global, ast.Nonlocal)):
                bad |= set(n.names)
            elif isinstance(n, ast.ExceptHandler) and n.name:
                bad.add(n.name)
            elif isinstance(n, (ast.Import, ast.ImportFrom)):
                for al in n.names:
                    bad.add((al.asname or al.name).split(".")[0])
        for n in walk_local(self.func, include_root=False):
            if isinstance(n, ast.Name) and isinstance(n.ctx, (ast.Store, ast.Del)) and id(n) not in const_targets:
                bad.add(n.id)
        # a name captured by a nested function could be rebound there (nonlocal): keep it simple
        for n in ast.walk(self.func):
            if isinstance(n, FUNC_TYPES + (ast.Lambda,)) and n is not self.func:
                for m in ast.walk(n):
                    if isinstance(m, ast.Name) and m.id in binds:
                        bad.add(m.id)
        tested = set()
        for nd in self.nodes:
            if nd.kind == "test":
                for m in ast.walk(nd.ast):
                    if isinstance(m, ast.Name):
                        tested.add(m.id)
        return sorted(f for f in binds if f not in bad and f in tested)

    @staticmethod
    def _ev(test, val: Dict[str, object]):
        """Three-valued evaluation of a branch test under a flag valuation ('U' = unknown)."""
        U = "U"
        if isinstance(test, ast.Name) and test.id in val:
            v = val[test.id]
            return U if v == U else bool(v)
        if isinstance(test, ast.Constant):
            return bool(test.value)
        if isinstance(test, ast.UnaryOp) and isinstance(test.op, ast.Not):
            r = CFG._ev(test.operand, val)
            return U if r == U else (not r)
        if isinstance(test, ast.BoolOp):
            rs = [CFG._ev(v, val) for v in test.values]
            if isinstance(test.op, ast.And):
                if any(r is False for r in rs):
                    return False
                return True if all(r is True for r in rs) else U
            if any(r is True for r in rs):
                return True
            return False if all(r is False for r in rs) else U
        if isinstance(test, ast.Compare) and len(test.ops) == 1 and isinstance(test.left, ast.Name) and test.left.id in val \
                and isinstance(test.comparators[0], ast.Constant):
            v = val[test.left.id]
            c = test.comparators[0].value
            if v == U or not (c is None or isinstance(c, bool)):
                return U
            op = test.ops[0]
            if isinstance(op, (ast.Is, ast.Eq)):
                return v is c
            if isinstance(op, (ast.IsNot, ast.NotEq)):
                return v is not c
        return U

    def _thread_flags(self):
        flags = self._find_flags()
        if not flags or len(flags) > 3:
            return
        self.flags = flags
        old_nodes, old_succ = self.nodes, self.succ
        assigns: Dict[int, Tuple[str, object]] = {}
        for nd in old_nodes:
            if nd.kind == "stmt" and isinstance(nd.ast, ast.Assign) and len(nd.ast.targets) == 1 \
                    and isinstance(nd.ast.targets[0], ast.Name) and nd.ast.targets[0].id in flags and isinstance(nd.ast.value, ast.Constant):
                assigns[nd.id] = (nd.ast.targets[0].id, nd.ast.value.value)
        fixed = {self.entry, self.exit, self.raise_exit}
        init = tuple("U" for _ in flags)
        new_nodes: List[Node] = []
        new_succ: Dict[int, List[Tuple[int, str]]] = {}
        ids: Dict[Tuple[int, tuple], int] = {}

        def get(old, v):
            key = (old, init if old in fixed else v)
            if key not in ids:
                o = old_nodes[old]
                tag = o.copy
                if key[1] != init:
                    tag = (tag + "|" if tag else "") + ",".join("%s=%s" % (f, x) for f, x in zip(flags, key[1]) if x != "U")
                n = Node(len(new_nodes), o.kind, o.ast, tag)
                new_nodes.append(n)
                new_succ[n.id] = []
                ids[key] = n.id
                work.append(key)
            return ids[key]

        work: List[Tuple[int, tuple]] = []
        for f in (self.entry, self.exit, self.raise_exit):
            get(f, init)
        while work:
            old, v = work.pop()
            src = ids[(old, v)]
            after = v
            if old in assigns:
                name, c = assigns[old]
                after = tuple(c if f == name else x for f, x in zip(flags, v))
            verdict = "U"
            if old_nodes[old].kind == "test":
                verdict = self._ev(old_nodes[old].ast, dict(zip(flags, v)))
            for (d, l) in old_succ[old]:
                if verdict is True and l == "F":
                    continue
                if verdict is False and l == "T":
                    continue
                state = v if l == "exc" else after
                dst = get(d, state)
                if (dst, l) not in new_succ[src]:
                    new_succ[src].append((dst, l))
        self.nodes = new_nodes
        self.succ = new_succ
        self.pred = {n.id: [] for n in new_nodes}
        for a_, lst in new_succ.items():
            for (b_, l) in lst:
                self.pred[b_].append((a_, l))
        self.entry, self.exit, self.raise_exit = ids[(self.entry, init)], ids[(self.exit, init)], ids[(self.raise_exit, init)]

    # ---- indexes -----------------------------------------------------------------
    def _index(self):
        self._by_ast: Dict[int, List[int]] = {}
        self._expr_owner: Dict[int, List[int]] = {}
        for n in self.nodes:
            if n.ast is None:
                continue
            self._by_ast.setdefault(id(n.ast), []).append(n.id)
            for sub in self._own_exprs(n):
                self._expr_owner.setdefault(id(sub), []).append(n.id)

    def _own_exprs(self, n: Node):
        a = n.ast
        if n.kind == "for":
            yield from walk_local(a.iter)
            yield from walk_local(a.target)
        elif n.kind == "with":
            for it in a.items:
                yield from walk_local(it.context_expr)
                if it.optional_vars is not None:
                    yield from walk_local(it.optional_vars)
        elif n.kind == "except":
            if a.type is not None:
                yield from walk_local(a.type)
        else:
            yield from walk_local(a)

    def nodes_of(self, astnode) -> List[int]:
        """CFG nodes evaluating the given statement / expression (all finally copies)."""
        r = self._by_ast.get(id(astnode))
        if r:
            return r
        return self._expr_owner.get(id(astnode), [])

    def node(self, i) -> Node:
        return self.nodes[i]

    def stmt_nodes(self, pred: Callable[[Node], bool]) -> List[int]:
        return [n.id for n in self.nodes if n.ast is not None and pred(n)]

    # ---- reachability ------------------------------------------------------------
    def reach(
        self,
        start: Iterable[int],
        removed: Iterable[int] = (),
        edge_ok: Optional[Callable[[int, int, str], bool]] = None,
        include_start=True,
    ) -> Set[int]:
        removed = set(removed)
        seen: Set[int] = set()
        stack = []
        for s in start:
            if include_start:
                if s not in removed:
                    stack.append(s)
            else:
                for (d, l) in self.succ[s]:
                    if edge_ok is None or edge_ok(s, d, l):
                        if d not in removed:
                            stack.append(d)
        while stack:
            n = stack.pop()
            if n in seen:
                continue
            seen.add(n)
            for (d, l) in self.succ[n]:
                if d in removed or d in seen:
                    continue
                if edge_ok is not None and not edge_ok(n, d, l):
                    continue
                stack.append(d)
        return seen

    def reachable_nodes(self) -> Set[int]:
        return self.reach([self.entry])

    def must_pass(self, through: Iterable[int], target: int, start: Optional[int] = None, edge_ok=None) -> bool:
        """Every path start->target passes a node of `through` (vacuously true if the target
        is unreachable)."""
        through = set(through)
        if target in through:
            return True
        s = self.entry if start is None else start
        r = self.reach([s], removed=through, edge_ok=edge_ok)
        return target not in r

    def always_reaches(self, start: int, through: Iterable[int], exits: Iterable[int], edge_ok=None) -> bool:
        """After `start`, every path to one of `exits` passes a node of `through`."""
        through = set(through)
        r = self.reach([start], removed=through, edge_ok=edge_ok, include_start=False)
        return not (r & set(exits))

    def path(self, start: int, target: int, removed: Iterable[int] = (), edge_ok=None) -> Optional[List[int]]:
        """A shortest witness path start -> target avoiding `removed` (for diagnostics)."""
        removed = set(removed)
        from collections import deque

        prev = {start: None}
        dq = deque([start])
        while dq:
            n = dq.popleft()
            if n == target:
                out = []
                while n is not None:
                    out.append(n)
                    n = prev[n]
                return list(reversed(out))
            for (d, l) in self.succ[n]:
                if d in prev or d in removed:
                    continue
                if edge_ok is not None and not edge_ok(n, d, l):
                    continue
                prev[d] = n
                dq.append(d)
        return None

    def describe_path(self, p: List[int]) -> str:
        parts = []
        for i in p:
            n = self.nodes[i]
            if n.kind in ("entry", "exit", "raise"):
                parts.append(n.kind)
            else:
                ln = getattr(n.ast, "lineno", "?")
                parts.append("L%s" % ln)
        return " -> ".join(parts)

    def count_acyclic_paths(self, cap=100000) -> int:
        """Number of acyclic entry->(exit|raise) paths (capped); reported in evidence."""
        import sys

        sys.setrecursionlimit(10000)
        memo: Dict[Tuple[int, frozenset], int] = {}
        exits = {self.exit, self.raise_exit}
        count = [0]

        def dfs(n, onpath):
            if count[0] >= cap:
                return
            if n in exits:
                count[0] += 1
                return
            for (d, l) in self.succ[n]:
                if d in onpath:
                    continue
                onpath.add(d)
                dfs(d, onpath)
                onpath.discard(d)

        dfs(self.entry, {self.entry})
        return count[0]
