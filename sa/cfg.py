"""Statement-level control-flow graph for one function.

Nodes are simple statements, branch tests (`if`/`while` tests), `for` heads, `with` heads
and `except` heads.  `finally` bodies are duplicated once per continuation kind (normal,
exception, return, break, continue), so a path through the graph is a feasible syntactic
path.  Path rules are decided by reachability with nodes/edges removed:

  "every path from A to B passes through some node of S"  <=>  B unreachable from A in G - S.

Exception edges: in mode 'explicit' only `raise`/`assert` and call-carrying statements that
sit lexically inside a `try` raise; in mode 'all' every statement that contains a call,
subscript or attribute access may raise to the innermost handler / finally / raise-exit.
"""
import ast
from typing import Callable, Dict, Iterable, List, Optional, Set, Tuple

from .astutil import walk_local, norm, FUNC_TYPES
from .loader import AnalysisError

CATCH_ALL = {"Exception", "BaseException"}


class Node:
    __slots__ = ("id", "kind", "ast", "copy")

    def __init__(self, id, kind, astnode, copy=""):
        self.id = id
        self.kind = kind  # entry exit raise stmt test for with except
        self.ast = astnode
        self.copy = copy  # which finally-copy this node lives in ('' = primary)

    def __repr__(self):
        return "<%d %s %s>" % (self.id, self.kind, norm(self.ast)[:60] if self.ast is not None else "")


class _Frame:
    def __init__(self, kind, parent, **kw):
        self.kind = kind  # 'try' 'finally' 'loop'
        self.parent = parent
        self.__dict__.update(kw)
        self.copies = {}


class CFG:
    def __init__(self, func_node, exc_mode="explicit", nonraising: Optional[Callable] = None):
        self.func = func_node
        self.exc_mode = exc_mode
        self.nonraising = nonraising
        self.nodes: List[Node] = []
        self.succ: Dict[int, List[Tuple[int, str]]] = {}
        self.pred: Dict[int, List[Tuple[int, str]]] = {}
        self.entry = self._new("entry", None)
        self.exit = self._new("exit", None)
        self.raise_exit = self._new("raise", None)
        self._copy = ""
        self._try_depth = 0
        out = self._seq(func_node.body, [(self.entry, "")], None)
        self._connect(out, self.exit)
        self._index()

    # ---- construction -------------------------------------------------------------
    def _new(self, kind, astnode) -> int:
        n = Node(len(self.nodes), kind, astnode, getattr(self, "_copy", ""))
        self.nodes.append(n)
        self.succ[n.id] = []
        self.pred[n.id] = []
        return n.id

    def _edge(self, a, b, label=""):
        if (b, label) not in self.succ[a]:
            self.succ[a].append((b, label))
            self.pred[b].append((a, label))

    def _connect(self, pending, dst):
        for (src, label) in pending:
            self._edge(src, dst, label)

    def _may_raise(self, st) -> bool:
        if isinstance(st, (ast.Raise, ast.Assert)):
            return True
        if isinstance(st, (ast.Pass, ast.Break, ast.Continue, ast.Global, ast.Nonlocal)):
            return False
        if isinstance(st, FUNC_TYPES + (ast.ClassDef,)):
            return False
        kinds = (ast.Call,) if self.exc_mode == "explicit" else (ast.Call, ast.Subscript, ast.Attribute)
        if self.exc_mode == "explicit" and self._try_depth == 0:
            return False
        for n in walk_local(st):
            if isinstance(n, kinds):
                if self.nonraising is not None and self.nonraising(n):
                    continue
                return True
        return False

    def _raise_from(self, src, frame, label="exc"):
        """Route an exception raised at node `src` outward through the frames."""
        pending = [(src, label)]
        f = frame
        while f is not None:
            if f.kind == "try":
                for h in f.handler_nodes:
                    self._connect(pending, h)
                if f.catch_all:
                    return
            elif f.kind == "finally":
                pending = self._through_finally(f, "exc", pending)
            f = f.parent
        self._connect(pending, self.raise_exit)

    def _through_finally(self, f, kind, pending):
        """Connect pending edges to the copy of the finally body for `kind`; return the
        pending edges that leave that copy."""
        if kind not in f.copies:
            saved_copy, saved_depth = self._copy, self._try_depth
            self._copy = (saved_copy + "/" if saved_copy else "") + "finally-" + kind + "@%d" % f.node.lineno
            self._try_depth = f.depth
            head = self._new("stmt", ast.Pass())  # join point
            out = self._seq(f.node.finalbody, [(head, "")], f.parent)
            self._copy, self._try_depth = saved_copy, saved_depth
            f.copies[kind] = (head, out)
        head, out = f.copies[kind]
        self._connect(pending, head)
        return list(out)

    def _route(self, src_pending, frame, kind):
        """Route return/break/continue outward. Returns (pending, loop_frame)."""
        pending = list(src_pending)
        f = frame
        while f is not None:
            if f.kind == "finally":
                pending = self._through_finally(f, kind, pending)
            elif f.kind == "loop" and kind in ("break", "continue"):
                return pending, f
            f = f.parent
        return pending, None

    def _seq(self, stmts, pending, frame):
        for st in stmts:
            pending = self._stmt(st, pending, frame)
        return pending

    def _simple(self, st, pending, frame, kind="stmt"):
        n = self._new(kind, st)
        self._connect(pending, n)
        if self._may_raise(st):
            self._raise_from(n, frame)
        return n

    def _stmt(self, st, pending, frame):
        if isinstance(st, ast.If):
            t = self._new("test", st.test)
            self._connect(pending, t)
            if self._may_raise(ast.Expr(st.test)):
                self._raise_from(t, frame)
            a = self._seq(st.body, [(t, "T")], frame)
            b = self._seq(st.orelse, [(t, "F")], frame)
            return a + b
        if isinstance(st, ast.While):
            t = self._new("test", st.test)
            self._connect(pending, t)
            if self._may_raise(ast.Expr(st.test)):
                self._raise_from(t, frame)
            lf = _Frame("loop", frame, breaks=[], head=t)
            body_out = self._seq(st.body, [(t, "T")], lf)
            for (s, l) in body_out:
                self._edge(s, t, l or "back")
            always = isinstance(st.test, ast.Constant) and bool(st.test.value)
            out = [] if always else self._seq(st.orelse, [(t, "F")], frame)
            return out + lf.breaks
        if isinstance(st, (ast.For, ast.AsyncFor)):
            h = self._new("for", st)
            self._connect(pending, h)
            if self._may_raise(ast.Expr(st.iter)):
                self._raise_from(h, frame)
            lf = _Frame("loop", frame, breaks=[], head=h)
            body_out = self._seq(st.body, [(h, "T")], lf)
            for (s, l) in body_out:
                self._edge(s, h, l or "back")
            out = self._seq(st.orelse, [(h, "F")], frame)
            return out + lf.breaks
        if isinstance(st, (ast.With, ast.AsyncWith)):
            w = self._new("with", st)
            self._connect(pending, w)
            if self._may_raise(ast.Expr(ast.Tuple([i.context_expr for i in st.items], ast.Load()))):
                self._raise_from(w, frame)
            return self._seq(st.body, [(w, "")], frame)
        if isinstance(st, ast.Try) or (hasattr(ast, "TryStar") and isinstance(st, getattr(ast, "TryStar"))):
            fin = None
            outer = frame
            if st.finalbody:
                fin = _Frame("finally", frame, node=st, depth=self._try_depth)
                outer = fin
            handler_nodes = []
            catch_all = False
            for h in st.handlers:
                hn = self._new("except", h)
                handler_nodes.append(hn)
                tname = norm(h.type) if h.type is not None else None
                if tname is None or tname in CATCH_ALL:
                    catch_all = True
            tf = _Frame("try", outer, handler_nodes=handler_nodes, catch_all=catch_all) if st.handlers else outer
            self._try_depth += 1
            body_out = self._seq(st.body, pending, tf)
            self._try_depth -= 1
            if st.finalbody:
                self._try_depth += 1  # handler/else bodies still inside try-finally
            else_out = self._seq(st.orelse, body_out, outer)
            outs = list(else_out)
            for h, hn in zip(st.handlers, handler_nodes):
                outs += self._seq(h.body, [(hn, "")], outer)
            if st.finalbody:
                self._try_depth -= 1
                outs = self._through_finally(fin, "normal", outs)
            return outs
        if isinstance(st, ast.Return):
            n = self._simple(st, pending, frame)
            p, _ = self._route([(n, "return")], frame, "return")
            self._connect(p, self.exit)
            return []
        if isinstance(st, ast.Raise):
            self._simple(st, pending, frame)
            return []
        if isinstance(st, ast.Break):
            n = self._simple(st, pending, frame)
            p, lf = self._route([(n, "break")], frame, "break")
            if lf is None:
                raise AnalysisError("break outside loop")
            lf.breaks.extend(p)
            return []
        if isinstance(st, ast.Continue):
            n = self._simple(st, pending, frame)
            p, lf = self._route([(n, "continue")], frame, "continue")
            if lf is None:
                raise AnalysisError("continue outside loop")
            for (s, l) in p:
                self._edge(s, lf.head, l)
            return []
        if hasattr(ast, "Match") and isinstance(st, ast.Match):
            raise AnalysisError("match statement not supported by the CFG builder")
        n = self._simple(st, pending, frame)
        return [(n, "")]

    # ---- indexes -----------------------------------------------------------------
    def _index(self):
        self._by_ast: Dict[int, List[int]] = {}
        self._expr_owner: Dict[int, List[int]] = {}
        for n in self.nodes:
            if n.ast is None:
                continue
            self._by_ast.setdefault(id(n.ast), []).append(n.id)
            for sub in self._own_exprs(n):
                self._expr_owner.setdefault(id(sub), []).append(n.id)

    def _own_exprs(self, n: Node):
        a = n.ast
        if n.kind == "for":
            yield from walk_local(a.iter)
            yield from walk_local(a.target)
        elif n.kind == "with":
            for it in a.items:
                yield from walk_local(it.context_expr)
                if it.optional_vars is not None:
                    yield from walk_local(it.optional_vars)
        elif n.kind == "except":
            if a.type is not None:
                yield from walk_local(a.type)
        else:
            yield from walk_local(a)

    def nodes_of(self, astnode) -> List[int]:
        """CFG nodes evaluating the given statement / expression (all finally copies)."""
        r = self._by_ast.get(id(astnode))
        if r:
            return r
        return self._expr_owner.get(id(astnode), [])

    def node(self, i) -> Node:
        return self.nodes[i]

    def stmt_nodes(self, pred: Callable[[Node], bool]) -> List[int]:
        return [n.id for n in self.nodes if n.ast is not None and pred(n)]

    # ---- reachability ------------------------------------------------------------
    def reach(
        self,
        start: Iterable[int],
        removed: Iterable[int] = (),
        edge_ok: Optional[Callable[[int, int, str], bool]] = None,
        include_start=True,
    ) -> Set[int]:
        removed = set(removed)
        seen: Set[int] = set()
        stack = []
        for s in start:
            if include_start:
                if s not in removed:
                    stack.append(s)
            else:
                for (d, l) in self.succ[s]:
                    if edge_ok is None or edge_ok(s, d, l):
                        if d not in removed:
                            stack.append(d)
        while stack:
            n = stack.pop()
            if n in seen:
                continue
            seen.add(n)
            for (d, l) in self.succ[n]:
                if d in removed or d in seen:
                    continue
                if edge_ok is not None and not edge_ok(n, d, l):
                    continue
                stack.append(d)
        return seen

    def reachable_nodes(self) -> Set[int]:
        return self.reach([self.entry])

    def must_pass(self, through: Iterable[int], target: int, start: Optional[int] = None, edge_ok=None) -> bool:
        """Every path start->target passes a node of `through` (vacuously true if the target
        is unreachable)."""
        through = set(through)
        if target in through:
            return True
        s = self.entry if start is None else start
        r = self.reach([s], removed=through, edge_ok=edge_ok)
        return target not in r

    def always_reaches(self, start: int, through: Iterable[int], exits: Iterable[int], edge_ok=None) -> bool:
        """After `start`, every path to one of `exits` passes a node of `through`."""
        through = set(through)
        r = self.reach([start], removed=through, edge_ok=edge_ok, include_start=False)
        return not (r & set(exits))

    def path(self, start: int, target: int, removed: Iterable[int] = (), edge_ok=None) -> Optional[List[int]]:
        """A shortest witness path start -> target avoiding `removed` (for diagnostics)."""
        removed = set(removed)
        from collections import deque

        prev = {start: None}
        dq = deque([start])
        while dq:
            n = dq.popleft()
            if n == target:
                out = []
                while n is not None:
                    out.append(n)
                    n = prev[n]
                return list(reversed(out))
            for (d, l) in self.succ[n]:
                if d in prev or d in removed:
                    continue
                if edge_ok is not None and not edge_ok(n, d, l):
                    continue
                prev[d] = n
                dq.append(d)
        return None

    def describe_path(self, p: List[int]) -> str:
        parts = []
        for i in p:
            n = self.nodes[i]
            if n.kind in ("entry", "exit", "raise"):
                parts.append(n.kind)
            else:
                ln = getattr(n.ast, "lineno", "?")
                parts.append("L%s" % ln)
        return " -> ".join(parts)

    def count_acyclic_paths(self, cap=100000) -> int:
        """Number of acyclic entry->(exit|raise) paths (capped); reported in evidence."""
        import sys

        sys.setrecursionlimit(10000)
        memo: Dict[Tuple[int, frozenset], int] = {}
        exits = {self.exit, self.raise_exit}
        count = [0]

        def dfs(n, onpath):
            if count[0] >= cap:
                return
            if n in exits:
                count[0] += 1
                return
            for (d, l) in self.succ[n]:
                if d in onpath:
                    continue
                onpath.add(d)
                dfs(d, onpath)
                onpath.discard(d)

        dfs(self.entry, {self.entry})
        return count[0]
