"""Static analysis machinery for twosigma/memento (see /verif/DESIGN.md).

Nothing in this package imports or executes twosigma.memento: every check parses the
source files under $MEMENTO_REPO (default /repo) with `ast` and decides rule instances
over syntax trees, statement CFGs, def-use chains, a resolved call graph and effect
summaries.
"""
