"""A loop over a literal module-level table written out row by row.

    TABLE = ((A, f), (B, g))                       if isinstance(x, A): return f(x)
    ...                                     ->     if isinstance(x, B): return g(x)
    for kind, handle in TABLE:
        if isinstance(x, kind): return handle(x)

The table is a tuple (or a list nobody else touches) of same-length tuples bound once at module level, every element a name,
an attribute chain, a constant or a tuple of those (evaluating it again at the place of use gives the same object); the loop
has no break / continue / else and does not assign its own variables.  Rows are visited in order, which is what the
unrolled statements say.  What the rows name (new helper functions) is then inlined like any other call."""
import ast
import copy

MAX_ROWS = 40


def _pure(e) -> bool:
    if isinstance(e, (ast.Constant, ast.Name)):
        return True
    if isinstance(e, ast.Attribute):
        return _pure(e.value)
    if isinstance(e, ast.Tuple):
        return all(_pure(x) for x in e.elts)
    return False


class _Subst(ast.NodeTransformer):
    def __init__(self, env):
        self.env = env

    def visit_Name(self, n):
        if isinstance(n.ctx, ast.Load) and n.id in self.env:
            return ast.copy_location(copy.deepcopy(self.env[n.id]), n)
        return n


def _table(module, name):
    v = module.assigns.get(name)
    if not isinstance(v, (ast.Tuple, ast.List)) or not v.elts or len(v.elts) > MAX_ROWS:
        return None
    binds = [n for n in ast.walk(module.tree) if isinstance(n, ast.Name) and n.id == name and isinstance(n.ctx, (ast.Store, ast.Del))]
    if len(binds) != 1 or any(isinstance(n, ast.Global) and name in n.names for n in ast.walk(module.tree)):
        return None
    if isinstance(v, ast.List):
        # a list could be changed in place: every other mention must be the iterable of a for loop
        iters = {id(f.iter) for f in ast.walk(module.tree) if isinstance(f, (ast.For, ast.comprehension))}
        if any(isinstance(n, ast.Name) and n.id == name and isinstance(n.ctx, ast.Load) and id(n) not in iters for n in ast.walk(module.tree)):
            return None
    return v.elts


def _local_table(fn, name):
    """the rows of a literal tuple a local is bound to by its only binding in the function"""
    if fn is None:
        return None
    binds = [n for n in ast.walk(fn) if isinstance(n, ast.Name) and n.id == name and isinstance(n.ctx, (ast.Store, ast.Del))]
    if len(binds) != 1 or any(a.arg == name for a in ast.walk(fn) if isinstance(a, ast.arg)):
        return None
    for st in ast.walk(fn):
        if isinstance(st, ast.Assign) and len(st.targets) == 1 and st.targets[0] is binds[0] and isinstance(st.value, ast.Tuple) \
                and st.value.elts and len(st.value.elts) <= MAX_ROWS:
            return st.value.elts
    return None


def _update_from_pairs(st):
    """`D.update((k, v) for ... in T if c)`  ->  `for ... in T: if c: D[k] = v` (what update does with an iterable of pairs)"""
    c = st.value if isinstance(st, ast.Expr) else None
    if not (isinstance(c, ast.Call) and isinstance(c.func, ast.Attribute) and c.func.attr == "update" and len(c.args) == 1 and not c.keywords
            and isinstance(c.args[0], ast.GeneratorExp) and len(c.args[0].generators) == 1 and not c.args[0].generators[0].is_async
            and isinstance(c.args[0].elt, ast.Tuple) and len(c.args[0].elt.elts) == 2 and _pure(c.func.value)):
        return None
    g = c.args[0].generators[0]
    k, v = c.args[0].elt.elts
    body = [ast.Assign(targets=[ast.Subscript(value=copy.deepcopy(c.func.value), slice=k, ctx=ast.Store())], value=v)]
    for t in reversed(g.ifs):
        body = [ast.If(test=t, body=body, orelse=[])]
    tgt = copy.deepcopy(g.target)
    for x in ast.walk(tgt):
        if isinstance(x, ast.Name):
            x.ctx = ast.Store()
    loop = ast.For(target=tgt, iter=g.iter, body=body, orelse=[])
    ast.copy_location(loop, st)
    ast.fix_missing_locations(loop)
    return loop


def _unroll(module, loop, fn=None):
    if isinstance(loop, ast.Expr):
        loop = _update_from_pairs(loop)
        if loop is None:
            return None
    if not isinstance(loop, ast.For) or loop.orelse:
        return None
    if isinstance(loop.iter, ast.Tuple) and loop.iter.elts and len(loop.iter.elts) <= MAX_ROWS:
        rows = loop.iter.elts
    elif isinstance(loop.iter, ast.Name):
        rows = _table(module, loop.iter.id) or _local_table(fn, loop.iter.id)
    else:
        rows = None
    if rows is None:
        return None
    tgt = loop.target
    names = [tgt.id] if isinstance(tgt, ast.Name) else ([e.id for e in tgt.elts] if isinstance(tgt, ast.Tuple) and all(isinstance(e, ast.Name) for e in tgt.elts) else None)
    if names is None:
        return None
    for st in loop.body:
        for n in ast.walk(st):
            if isinstance(n, (ast.Break, ast.Continue, ast.FunctionDef, ast.AsyncFunctionDef, ast.Lambda, ast.ListComp, ast.SetComp, ast.DictComp, ast.GeneratorExp)):
                return None
            if isinstance(n, ast.Name) and n.id in names and isinstance(n.ctx, (ast.Store, ast.Del)):
                return None
    out = []
    for r in rows:
        if isinstance(tgt, ast.Name):
            if not _pure(r):
                return None
            env = {names[0]: r}
        else:
            if not isinstance(r, ast.Tuple) or len(r.elts) != len(names) or not all(_pure(x) for x in r.elts):
                return None
            env = dict(zip(names, r.elts))
        for st in loop.body:
            s2 = _Subst(env).visit(copy.deepcopy(st))
            ast.copy_location(s2, loop)
            out.append(s2)
    return out


def _walk(module, node, fn=None) -> bool:
    changed = False
    fn = fn if fn is not None else node
    for fld in ("body", "orelse", "finalbody"):
        blk = getattr(node, fld, None)
        if not isinstance(blk, list):
            continue
        i = 0
        while i < len(blk):
            st = blk[i]
            if isinstance(st, ast.stmt):
                changed |= _walk(module, st, fn)
                rep = _unroll(module, st, fn)
                if rep is not None:
                    blk[i:i + 1] = rep
                    changed = True
                    i += len(rep)
                    continue
            i += 1
    for h in getattr(node, "handlers", []) or []:
        changed |= _walk(module, h, fn)
    return changed


def unroll_tables(repo):
    done = []
    for m in repo.modules.values():
        ch = False
        for fi in list(m.all_funcs()):
            if fi.parent is None and _walk(m, fi.node):
                ast.fix_missing_locations(fi.node)
                ch = True
        if ch:
            m.reindex()
            done.append(m.name)
    if done:
        repo.refresh_class_index()
    return done
