"""Rule-liveness self-validation (thorough tier).

Each entry is a source edit applied to an in-memory overlay of /repo (nothing is written to
disk, nothing is executed): a *breaking* edit must make the property's check report a new
violation (in the named rule when one is given); a *benign* twin must leave the verdict
unchanged.  An edit whose anchor text is absent from the current tree is skipped and
reported as such (the tree was legitimately changed); a rule that does not fire on its own
breaking edit, or fires on a benign twin, makes the thorough run exit 2.
"""
import importlib
import os
import random
from multiprocessing import Pool
from typing import Dict, List

from .loader import Repo, AnalysisError, PKG_DIR

# property -> list of dicts: name, file, old, new, kind ('break'|'benign'), rule (optional)
TABLE: Dict[str, List[dict]] = {}


def M(prop, name, file, old, new, kind="break", rule=None, count=1):
    TABLE.setdefault(prop, []).append(
        {"name": name, "file": os.path.join(PKG_DIR, file), "old": old, "new": new, "kind": kind, "rule": rule, "count": count}
    )


def _load_tables():
    for i in range(1, 20):
        try:
            importlib.import_module("sa.mutant_tables.c%02d" % i)
        except ImportError:
            pass


def _viol(ck):
    return {(o.rule, o.key) for o in ck.obs if o.verdict == "violation"}


def _run_one(args):
    prop, root, m, base = args
    from .check import run_property

    try:
        with open(os.path.join(root, m["file"])) as f:
            src = f.read()
    except OSError:
        return (m["name"], "skipped", "file missing")
    n = src.count(m["old"])
    if n != m["count"]:
        return (m["name"], "skipped", "anchor text occurs %d times (expected %d)" % (n, m["count"]))
    new_src = src.replace(m["old"], m["new"])
    try:
        compile(new_src, m["file"], "exec")
    except SyntaxError as e:
        return (m["name"], "error", "edit does not compile: %s" % e)
    try:
        repo = Repo(root, overlay={m["file"]: new_src})
        ck = run_property(prop, repo, "thorough", "explicit")
        ck.check_expected()
        v = _viol(ck)
    except AnalysisError as e:
        if m["kind"] == "break":
            # an analysis error on a breaking edit is not a detection
            return (m["name"], "missed", "ANALYSIS-ERROR instead of a violation: %s" % e)
        return (m["name"], "false-alarm", "ANALYSIS-ERROR on a benign twin: %s" % e)
    new = v - set(map(tuple, base))
    if m["kind"] == "break":
        if not new:
            return (m["name"], "missed", "no new violation")
        if m["rule"] and not any(r == m["rule"] or r.startswith(m["rule"]) for (r, k) in new):
            return (m["name"], "missed", "fired %s, expected %s" % (sorted({r for r, k in new}), m["rule"]))
        return (m["name"], "caught", ", ".join(sorted({r for r, k in new})))
    if new:
        return (m["name"], "false-alarm", "benign twin reported %s" % sorted(new)[:3])
    return (m["name"], "silent", "")


def run(prop, repo, seed):
    _load_tables()
    from .check import run_property

    muts = list(TABLE.get(prop, []))
    if not muts:
        return {"mutants": 0, "note": "no breaking edits registered for this property"}
    random.Random(seed).shuffle(muts)
    base_ck = run_property(prop, repo, "thorough", "explicit")
    base = sorted(_viol(base_ck))
    jobs = [(prop, repo.root, m, base) for m in muts]
    with Pool(min(16, len(jobs))) as pool:
        results = pool.map(_run_one, jobs)
    out = {"mutants": len(muts), "caught": 0, "silent": 0, "skipped": 0, "broken": [], "results": []}
    for (name, status, detail) in sorted(results):
        out["results"].append({"edit": name, "status": status, "detail": detail})
        if status == "caught":
            out["caught"] += 1
        elif status == "silent":
            out["silent"] += 1
        elif status == "skipped":
            out["skipped"] += 1
        else:
            out["broken"].append("%s: %s (%s)" % (name, status, detail))
    return out
