"""Small AST helpers shared by all rules."""
import ast
import re
from typing import Iterable, List, Optional

FUNC_TYPES = (ast.FunctionDef, ast.AsyncFunctionDef, ast.Lambda)
SCOPE_TYPES = FUNC_TYPES + (ast.ClassDef,)


def norm(node) -> str:
    """Normalised source text of a node (used in finding keys instead of line numbers)."""
    if node is None:
        return ""
    if isinstance(node, str):
        return node
    try:
        s = ast.unparse(node)
    except Exception:  # pragma: no cover
        s = ast.dump(node)
    return re.sub(r"\s+", " ", s).strip()


def short(node, n=110) -> str:
    s = norm(node)
    return s if len(s) <= n else s[: n - 3] + "..."


def head(node, n=110) -> str:
    """First line of a compound statement (e.g. 'if x:'), or the whole simple statement."""
    if isinstance(node, ast.If):
        return short("if %s:" % norm(node.test), n)
    if isinstance(node, ast.While):
        return short("while %s:" % norm(node.test), n)
    if isinstance(node, (ast.For, ast.AsyncFor)):
        return short("for %s in %s:" % (norm(node.target), norm(node.iter)), n)
    if isinstance(node, (ast.With, ast.AsyncWith)):
        return short("with %s:" % ", ".join(norm(i) for i in node.items), n)
    if isinstance(node, ast.Try):
        return "try:"
    if isinstance(node, ast.ExceptHandler):
        return short("except %s:" % norm(node.type), n)
    if isinstance(node, (ast.FunctionDef, ast.AsyncFunctionDef)):
        return "def %s(...)" % node.name
    if isinstance(node, ast.ClassDef):
        return "class %s" % node.name
    return short(node, n)


def dotted(node) -> Optional[str]:
    """Name/Attribute chain -> 'a.b.c'; anything else -> None."""
    parts = []
    while isinstance(node, ast.Attribute):
        parts.append(node.attr)
        node = node.value
    if isinstance(node, ast.Name):
        parts.append(node.id)
        return ".".join(reversed(parts))
    return None


def root_name(node) -> Optional[str]:
    while isinstance(node, (ast.Attribute, ast.Subscript, ast.Call)):
        node = node.value if not isinstance(node, ast.Call) else node.func
    return node.id if isinstance(node, ast.Name) else None


def walk_local(node, include_root=True) -> Iterable[ast.AST]:
    """Walk a subtree without entering nested function/class scopes (lambdas included as
    opaque nodes; comprehensions are entered)."""
    stack = [node]
    first = True
    while stack:
        n = stack.pop()
        if not first and isinstance(n, SCOPE_TYPES):
            yield n  # the def itself is visible, its body is not
            continue
        if not (first and not include_root):
            yield n
        first = False
        stack.extend(reversed(list(ast.iter_child_nodes(n))))


def walk_body(func_node) -> Iterable[ast.AST]:
    """All nodes of a function's own body (nested defs opaque)."""
    for st in func_node.body:
        if isinstance(st, SCOPE_TYPES):
            yield st  # a nested def / class is visible as a statement, its body is not
        else:
            yield from walk_local(st)


def calls_in(node) -> List[ast.Call]:
    return [n for n in walk_local(node) if isinstance(n, ast.Call)]


def body_calls(func_node) -> List[ast.Call]:
    return [n for n in walk_body(func_node) if isinstance(n, ast.Call)]


def call_attr(call: ast.Call) -> Optional[str]:
    """Last component of the callee: f() -> 'f', a.b.m() -> 'm'."""
    f = call.func
    if isinstance(f, ast.Attribute):
        return f.attr
    if isinstance(f, ast.Name):
        return f.id
    return None


def call_dotted(call: ast.Call) -> Optional[str]:
    return dotted(call.func)


def call_recv(call: ast.Call):
    return call.func.value if isinstance(call.func, ast.Attribute) else None


def kwarg(call: ast.Call, name: str):
    for k in call.keywords:
        if k.arg == name:
            return k.value
    return None


def arg_or_kw(call: ast.Call, idx: int, name: str):
    v = kwarg(call, name)
    if v is not None:
        return v
    if idx < len(call.args) and not any(isinstance(a, ast.Starred) for a in call.args[: idx + 1]):
        return call.args[idx]
    return None


def all_stmts(func_node) -> List[ast.stmt]:
    return [n for n in walk_body(func_node) if isinstance(n, ast.stmt)]


def const_str(node) -> Optional[str]:
    if isinstance(node, ast.Constant) and isinstance(node.value, str):
        return node.value
    return None


def strings_in(node) -> List[str]:
    return [n.value for n in ast.walk(node) if isinstance(n, ast.Constant) and isinstance(n.value, str)]


def names_in(node) -> List[str]:
    return [n.id for n in ast.walk(node) if isinstance(n, ast.Name)]


def attrs_in(node) -> List[str]:
    return [n.attr for n in ast.walk(node) if isinstance(n, ast.Attribute)]


def dotted_in(node) -> List[str]:
    """All maximal dotted chains in an expression."""
    out = []

    def rec(n):
        d = dotted(n)
        if d is not None:
            out.append(d)
            return
        for ch in ast.iter_child_nodes(n):
            rec(ch)

    rec(node)
    return out


def parent_map(root):
    pm = {}
    for n in ast.walk(root):
        for ch in ast.iter_child_nodes(n):
            pm[ch] = n
    return pm


def enclosing(pm, node, types):
    n = pm.get(node)
    while n is not None and not isinstance(n, types):
        n = pm.get(n)
    return n


def enclosing_stmt(pm, node):
    n = node
    while n is not None and not isinstance(n, ast.stmt):
        n = pm.get(n)
    return n


def is_none(node) -> bool:
    return isinstance(node, ast.Constant) and node.value is None


def isinstance_types(test) -> Optional[tuple]:
    """isinstance(x, T) / isinstance(x, (A, B)) -> ('x-dotted', [type names])."""
    if isinstance(test, ast.Call) and isinstance(test.func, ast.Name) and test.func.id == "isinstance":
        if len(test.args) == 2:
            subj = norm(test.args[0])
            t = test.args[1]
            if isinstance(t, ast.Tuple):
                return subj, [norm(e) for e in t.elts]
            return subj, [norm(t)]
    return None


def test_atoms(test) -> List[ast.AST]:
    """Flatten `a or b or c` / single test into its disjuncts."""
    if isinstance(test, ast.BoolOp) and isinstance(test.op, ast.Or):
        out = []
        for v in test.values:
            out.extend(test_atoms(v))
        return out
    return [test]


def conj_atoms(test) -> List[ast.AST]:
    if isinstance(test, ast.BoolOp) and isinstance(test.op, ast.And):
        out = []
        for v in test.values:
            out.extend(conj_atoms(v))
        return out
    return [test]


def loc(fi, node) -> str:
    ln = getattr(node, "lineno", None)
    if ln is None:
        ln = fi.node.lineno if hasattr(fi, "node") else 0
    f = fi.file if hasattr(fi, "file") else str(fi)
    return "%s:%s" % (f, ln)


def alpha(expr):
    """Copy of `expr` with comprehension / lambda bound variables renamed canonically (_c0, _c1, ...),
    so that rules comparing text do not depend on how a bound variable is spelled."""
    import copy
    e = copy.deepcopy(expr)
    names = {}
    for n in ast.walk(e):
        if isinstance(n, ast.comprehension):
            for x in ast.walk(n.target):
                if isinstance(x, ast.Name) and x.id not in names:
                    names[x.id] = "_c%d" % len(names)
        if isinstance(n, ast.Lambda):
            for a in n.args.posonlyargs + n.args.args + n.args.kwonlyargs:
                if a.arg not in names:
                    names[a.arg] = "_c%d" % len(names)
    for n in ast.walk(e):
        if isinstance(n, ast.Name) and n.id in names:
            n.id = names[n.id]
        if isinstance(n, ast.arg) and n.arg in names:
            n.arg = names[n.arg]
    return e


def norm_alpha(expr) -> str:
    return norm(alpha(expr))


def sig_stmts(body):
    """Statements of a block that do something: no `pass`, no bare constants (docstrings), no logging."""
    out = []
    for st in body:
        if isinstance(st, ast.Pass):
            continue
        if isinstance(st, ast.Expr) and isinstance(st.value, ast.Constant):
            continue
        if isinstance(st, ast.Expr) and isinstance(st.value, ast.Call) and (dotted(st.value.func) or "").split(".")[0] in ("log", "logging", "logger"):
            continue
        out.append(st)
    return out


def str_parts(e):
    """A string-building expression as a flat list of parts ('lit', text) / ('expr', node), whatever its
    spelling: a constant, an f-string, 'fmt'.format(...) with {} / {0} / {name} fields, a '+' chain of those,
    'fmt' % (...) with %s fields.  Returns None for anything else."""
    import re as _re
    if isinstance(e, ast.Constant) and isinstance(e.value, str):
        return [("lit", e.value)] if e.value else []
    if isinstance(e, ast.JoinedStr):
        out = []
        for v in e.values:
            if isinstance(v, ast.Constant):
                out.append(("lit", v.value))
            elif isinstance(v, ast.FormattedValue) and v.format_spec is None and v.conversion in (-1, 115):
                out.append(("expr", v.value))
            else:
                return None
        return _merge(out)
    if isinstance(e, ast.Call) and isinstance(e.func, ast.Attribute) and e.func.attr == "format" and isinstance(e.func.value, ast.Constant) \
            and isinstance(e.func.value.value, str):
        fmt = e.func.value.value
        out = []
        pos = 0
        auto = 0
        for m in _re.finditer(r"\{\{|\}\}|\{([A-Za-z_0-9]*)\}", fmt):
            if m.start() > pos:
                out.append(("lit", fmt[pos:m.start()]))
            tok = m.group(0)
            if tok == "{{":
                out.append(("lit", "{"))
            elif tok == "}}":
                out.append(("lit", "}"))
            else:
                name = m.group(1)
                if name == "":
                    idx = auto
                    auto += 1
                    if idx >= len(e.args):
                        return None
                    out.append(("expr", e.args[idx]))
                elif name.isdigit():
                    if int(name) >= len(e.args):
                        return None
                    out.append(("expr", e.args[int(name)]))
                else:
                    kw = [k.value for k in e.keywords if k.arg == name]
                    if not kw:
                        return None
                    out.append(("expr", kw[0]))
            pos = m.end()
        if "{" in fmt[pos:] or "}" in fmt[pos:]:
            return None
        if pos < len(fmt):
            out.append(("lit", fmt[pos:]))
        return _merge(out)
    if isinstance(e, ast.BinOp) and isinstance(e.op, ast.Add):
        l, r = str_parts(e.left), str_parts(e.right)
        if l is None and r is None:
            return None
        l = l if l is not None else [("expr", e.left)]
        r = r if r is not None else [("expr", e.right)]
        return _merge(l + r)
    if isinstance(e, ast.BinOp) and isinstance(e.op, ast.Mod) and isinstance(e.left, ast.Constant) and isinstance(e.left.value, str):
        args = list(e.right.elts) if isinstance(e.right, ast.Tuple) else [e.right]
        pieces = e.left.value.split("%s")
        if len(pieces) != len(args) + 1 or "%" in "".join(pieces).replace("%%", ""):
            return None
        out = []
        for i, pc in enumerate(pieces):
            if pc:
                out.append(("lit", pc.replace("%%", "%")))
            if i < len(args):
                out.append(("expr", args[i]))
        return _merge(out)
    if isinstance(e, ast.Call) and isinstance(e.func, ast.Name) and e.func.id == "str" and len(e.args) == 1:
        return [("expr", e.args[0])]
    return None


def _merge(parts):
    out = []
    parts = [("lit", v.value) if k == "expr" and isinstance(v, ast.Constant) and isinstance(v.value, str) else (k, v) for k, v in parts]
    for k, v in parts:
        if k == "lit" and out and out[-1][0] == "lit":
            out[-1] = ("lit", out[-1][1] + v)
        elif not (k == "lit" and v == ""):
            out.append((k, v))
    return out


def str_template(e):
    """'{}#{}' for any spelling of key + '#' + version; None if `e` is not a string-building expression."""
    p = str_parts(e)
    if p is None:
        return None
    return "".join(v.replace("{", "{{").replace("}", "}}") if k == "lit" else "{}" for k, v in p), [v for k, v in p if k == "expr"]
