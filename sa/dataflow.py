"""Reaching definitions and expression dependency closure on the CFG of one function."""
import ast
from typing import Dict, List, Optional, Set, Tuple

from .astutil import dotted, walk_local, norm, FUNC_TYPES
from .cfg import CFG


class Def:
    __slots__ = ("node", "name", "value", "kind", "stmt")

    def __init__(self, node, name, value, kind, stmt=None):
        self.node = node  # cfg node id (-1 for parameters)
        self.name = name  # 'x' or dotted 'self.x'
        self.value = value  # ast expr or None
        self.kind = kind  # assign aug for with except param import def
        self.stmt = stmt

    def __repr__(self):
        return "<Def %s@%s %s>" % (self.name, self.node, self.kind)


def _target_names(t) -> List[Tuple[str, bool]]:
    """Names (or dotted self-attrs) strongly defined by an assignment target.
    Returns (name, is_whole) where is_whole is False for tuple-unpacked parts."""
    if isinstance(t, ast.Name):
        return [(t.id, True)]
    if isinstance(t, ast.Attribute):
        d = dotted(t)
        return [(d, True)] if d else []
    if isinstance(t, (ast.Tuple, ast.List)):
        out = []
        for e in t.elts:
            out += [(n, False) for (n, _) in _target_names(e)]
        return out
    if isinstance(t, ast.Starred):
        return [(n, False) for (n, _) in _target_names(t.value)]
    return []


class DataFlow:
    def __init__(self, func_node, cfg: Optional[CFG] = None, exc_mode="explicit"):
        self.func = func_node
        self.cfg = cfg or CFG(func_node, exc_mode)
        self.params: List[str] = []
        a = func_node.args
        for x in a.posonlyargs + a.args + a.kwonlyargs:
            self.params.append(x.arg)
        if a.vararg:
            self.params.append(a.vararg.arg)
        if a.kwarg:
            self.params.append(a.kwarg.arg)
        self.gen: Dict[int, List[Def]] = {}
        self.local_names: Set[str] = set(self.params)
        self._collect_defs()
        self._solve()

    # ---- defs --------------------------------------------------------------------
    def _collect_defs(self):
        for n in self.cfg.nodes:
            ds: List[Def] = []
            a = n.ast
            if a is None:
                pass
            elif n.kind == "stmt":
                if isinstance(a, ast.Assign):
                    for t in a.targets:
                        for (name, whole) in _target_names(t):
                            ds.append(Def(n.id, name, a.value, "assign" if whole else "unpack", a))
                elif isinstance(a, ast.AnnAssign):
                    if a.value is not None:
                        for (name, whole) in _target_names(a.target):
                            ds.append(Def(n.id, name, a.value, "assign", a))
                elif isinstance(a, ast.AugAssign):
                    for (name, whole) in _target_names(a.target):
                        ds.append(Def(n.id, name, a.value, "aug", a))
                elif isinstance(a, (ast.Import, ast.ImportFrom)):
                    for al in a.names:
                        ds.append(Def(n.id, (al.asname or al.name).split(".")[0], None, "import", a))
                elif isinstance(a, FUNC_TYPES + (ast.ClassDef,)) and hasattr(a, "name"):
                    ds.append(Def(n.id, a.name, None, "def", a))
                # walrus
                for sub in walk_local(a):
                    if isinstance(sub, ast.NamedExpr) and isinstance(sub.target, ast.Name):
                        ds.append(Def(n.id, sub.target.id, sub.value, "assign", a))
            elif n.kind == "test":
                # `if (p := self._merge_parent):`
                for sub in walk_local(a):
                    if isinstance(sub, ast.NamedExpr) and isinstance(sub.target, ast.Name):
                        ds.append(Def(n.id, sub.target.id, sub.value, "assign", a))
            elif n.kind == "for":
                for (name, whole) in _target_names(a.target):
                    ds.append(Def(n.id, name, a.iter, "for", a))
            elif n.kind == "with":
                for it in a.items:
                    if it.optional_vars is not None:
                        for (name, whole) in _target_names(it.optional_vars):
                            ds.append(Def(n.id, name, it.context_expr, "with", a))
            elif n.kind == "except":
                if a.name:
                    ds.append(Def(n.id, a.name, a.type, "except", a))
            self.gen[n.id] = ds
            for d in ds:
                if "." not in d.name:
                    self.local_names.add(d.name)

    def _solve(self):
        cfg = self.cfg
        param_defs = [Def(-1, p, None, "param") for p in self.params]
        self.IN: Dict[int, Set[Def]] = {n.id: set() for n in cfg.nodes}
        self.OUT: Dict[int, Set[Def]] = {n.id: set() for n in cfg.nodes}
        self.OUT[cfg.entry] = set(param_defs)
        work = [n.id for n in cfg.nodes]
        inwork = set(work)
        while work:
            i = work.pop(0)
            inwork.discard(i)
            if i == cfg.entry:
                newin = set()
                newout = set(param_defs)
            else:
                newin = set()
                for (p, _) in cfg.pred[i]:
                    newin |= self.OUT[p]
                gen = self.gen[i]
                killed = {d.name for d in gen if d.kind != "aug"}
                # an assignment to `x` also kills defs of dotted names rooted at x
                newout = {
                    d
                    for d in newin
                    if d.name not in killed and not any(d.name.startswith(k + ".") for k in killed)
                }
                # aug-assign keeps previous defs (value depends on them) but adds itself
                newout |= set(gen)
            if newin != self.IN[i] or newout != self.OUT[i]:
                self.IN[i] = newin
                self.OUT[i] = newout
                for (s, _) in cfg.succ[i]:
                    if s not in inwork:
                        work.append(s)
                        inwork.add(s)

    def reaching(self, node_id: int, name: str) -> List[Def]:
        return sorted([d for d in self.IN[node_id] if d.name == name], key=lambda d: d.node)

    def is_local(self, name: str) -> bool:
        return name in self.local_names

    # ---- dependency closure ------------------------------------------------------
    def deps(self, expr, at: int, _seen=None, _bound=None) -> Set[str]:
        """Atoms the value of `expr` (evaluated at cfg node `at`) depends on:
        param:x  attr:<root>.<chain>  call:<name>  callq:<dotted>  const:<repr>
        global:x  getattr:<a>  op:<kind>"""
        seen = _seen if _seen is not None else set()
        bound = _bound or {}
        out: Set[str] = set()

        def name_atoms(name: str) -> Set[str]:
            if name in bound:
                return self.deps(bound[name], at, seen, {k: v for k, v in bound.items() if k != name})
            if not self.is_local(name):
                return {"global:" + name}
            res: Set[str] = set()
            ds = self.reaching(at, name)
            if not ds:
                # defined later / in another branch: treat as unknown local
                return {"local:" + name}
            for d in ds:
                if d.kind == "param":
                    res.add("param:" + name)
                    continue
                key = (d.node, d.name)
                if key in seen:
                    continue
                seen.add(key)
                if d.kind == "except":
                    res.add("exc:" + (norm(d.value) if d.value is not None else "*"))
                elif d.kind in ("import", "def"):
                    res.add("global:" + name)
                elif d.value is not None:
                    if d.kind in ("for", "unpack"):
                        res.add("op:elem")
                    res |= self.deps(d.value, d.node, seen, None)
                    if d.kind == "aug":
                        pass  # previous defs are also in IN and handled by the loop
            return res

        def chain(e) -> Optional[Set[str]]:
            """Pure attribute chains -> set of fully substituted dotted strings."""
            r = e
            while isinstance(r, ast.Attribute):
                r = r.value
            if not isinstance(r, ast.Name) or r.id in bound:
                return None
            return self._chain_at(e, at, seen)

        def rec(e):
            if e is None:
                return
            if isinstance(e, ast.Constant):
                out.add("const:" + repr(e.value))
            elif isinstance(e, ast.Name):
                out.update(name_atoms(e.id))
            elif isinstance(e, ast.Attribute):
                c = chain(e)
                if c is not None:
                    for x in c:
                        out.add("attr:" + x)
                    # also the root's own atoms (param / global)
                    r = e
                    while isinstance(r, ast.Attribute):
                        r = r.value
                    if isinstance(r, ast.Name):
                        out.update(a for a in name_atoms(r.id) if a.startswith(("param:", "global:")))
                else:
                    out.add("getattr:" + e.attr)
                    rec(e.value)
            elif isinstance(e, ast.Call):
                d = dotted(e.func)
                if d:
                    out.add("callq:" + d)
                    out.add("call:" + d.split(".")[-1])
                    if isinstance(e.func, ast.Attribute):
                        rec(e.func.value)
                else:
                    if isinstance(e.func, ast.Attribute):
                        out.add("call:" + e.func.attr)
                        rec(e.func.value)
                    else:
                        out.add("call:?")
                        rec(e.func)
                for a in e.args:
                    rec(a.value if isinstance(a, ast.Starred) else a)
                for k in e.keywords:
                    rec(k.value)
            elif isinstance(e, (ast.ListComp, ast.SetComp, ast.GeneratorExp, ast.DictComp)):
                nb = dict(bound)
                for g in e.generators:
                    rec_with(g.iter, nb)
                    for (nm, _) in _target_names(g.target):
                        nb[nm] = g.iter
                    for c in g.ifs:
                        rec_with(c, nb)
                out.add("op:elem")
                if isinstance(e, ast.DictComp):
                    rec_with(e.key, nb)
                    rec_with(e.value, nb)
                else:
                    rec_with(e.elt, nb)
            elif isinstance(e, ast.Lambda):
                out.add("op:lambda")
            elif isinstance(e, ast.Subscript):
                out.add("op:subscript")
                rec(e.value)
                rec(e.slice)
            else:
                if isinstance(e, ast.BinOp):
                    out.add("op:" + type(e.op).__name__)
                for ch in ast.iter_child_nodes(e):
                    if isinstance(ch, ast.expr) or isinstance(ch, (ast.keyword, ast.FormattedValue, ast.Slice)):
                        rec(ch.value if isinstance(ch, ast.keyword) else ch)

        def rec_with(e, nb):
            out.update(self.deps(e, at, seen, nb))

        rec(expr)
        return out

    def _chain_at(self, e, at, seen) -> Optional[Set[str]]:
        if isinstance(e, ast.Name):
            if not self.is_local(e.id):
                return {e.id}
            ds = self.reaching(at, e.id)
            if not ds:
                return None
            res: Set[str] = set()
            for d in ds:
                if d.kind == "param":
                    res.add(e.id)
                elif d.kind == "assign" and d.value is not None:
                    key = ("chain", d.node, d.name)
                    if key in seen:
                        return None
                    seen.add(key)
                    sub = self._chain_at(d.value, d.node, seen)
                    seen.discard(key)
                    if sub is None:
                        return None
                    res |= sub
                else:
                    return None
            return res
        if isinstance(e, ast.Attribute):
            b = self._chain_at(e.value, at, seen)
            if b is None:
                return None
            return {x + "." + e.attr for x in b}
        return None

    def chains(self, expr, at: int) -> Optional[Set[str]]:
        """Fully substituted dotted chains for a pure Name/Attribute expression."""
        return self._chain_at(expr, at, set())

    def same_defs(self, name: str, at1: int, at2: int) -> bool:
        a = {(d.node, d.name) for d in self.reaching(at1, name)}
        b = {(d.node, d.name) for d in self.reaching(at2, name)}
        return bool(a) and a == b
