"""Parse the repository and index modules, classes, functions and type comments."""
import ast
import os
import re
from typing import Dict, List, Optional

PKG_DIR = os.path.join("twosigma", "memento")


class AnalysisError(Exception):
    """An anchor vanished or a construct is outside what a rule understands (exit 2)."""


def repo_root() -> str:
    return os.environ.get("MEMENTO_REPO", "/repo")


class FuncInfo:
    def __init__(self, module, node, qual, cls=None, parent=None):
        self.module = module
        self.node = node
        self.qual = qual  # e.g. storage_base.MemoryCache.put
        self.cls = cls
        self.parent = parent
        self.name = node.name
        self.nested: Dict[str, "FuncInfo"] = {}

    @property
    def file(self):
        return self.module.relpath

    @property
    def params(self) -> List[str]:
        a = self.node.args
        names = [x.arg for x in a.posonlyargs + a.args]
        if a.vararg:
            names.append(a.vararg.arg)
        names += [x.arg for x in a.kwonlyargs]
        if a.kwarg:
            names.append(a.kwarg.arg)
        return names

    @property
    def decorators(self) -> List[str]:
        out = []
        for d in self.node.decorator_list:
            out.append(ast.unparse(d))
        return out

    @property
    def is_static(self):
        return "staticmethod" in self.decorators

    @property
    def is_classmethod(self):
        return "classmethod" in self.decorators

    def param_annotation(self, name) -> Optional[str]:
        a = self.node.args
        for x in a.posonlyargs + a.args + a.kwonlyargs:
            if x.arg == name and x.annotation is not None:
                return ast.unparse(x.annotation)
        return None

    def __repr__(self):
        return "<Func %s>" % self.qual


class ClassInfo:
    def __init__(self, module, node, qual, outer=None):
        self.module = module
        self.node = node
        self.qual = qual  # e.g. storage_base.MemoryCache, storage_base.Codec.Strategy
        self.name = node.name
        self.outer = outer
        self.methods: Dict[str, FuncInfo] = {}
        self.fields: Dict[str, Optional[str]] = {}  # class-level name -> type text
        self.nested: Dict[str, "ClassInfo"] = {}
        self.base_exprs = [ast.unparse(b) for b in node.bases]

    @property
    def file(self):
        return self.module.relpath

    def __repr__(self):
        return "<Class %s>" % self.qual


class Module:
    def __init__(self, name, relpath, source):
        self.name = name  # short module name, e.g. storage_base
        self.relpath = relpath
        self.source = source
        try:
            self.tree = ast.parse(source, filename=relpath, type_comments=True)
        except SyntaxError as e:  # fail closed
            raise AnalysisError("cannot parse %s: %s" % (relpath, e))
        from .canon import canonicalise
        canonicalise(self.tree)
        self.classes: Dict[str, ClassInfo] = {}
        self.functions: Dict[str, FuncInfo] = {}
        self.imports: Dict[str, str] = {}  # local name -> dotted origin
        self.assigns: Dict[str, ast.AST] = {}  # module-level NAME = value
        self.docstring = ast.get_docstring(self.tree) or ""
        self._index()

    def reindex(self):
        """Rebuild the tables after the tree was rewritten in place (sa/inline.py)."""
        from .canon import canonicalise
        canonicalise(self.tree)
        self.classes = {}
        self.functions = {}
        self.imports = {}
        self.assigns = {}
        self._index()

    def _index(self):
        for st in self.tree.body:
            if isinstance(st, ast.Import):
                for a in st.names:
                    self.imports[a.asname or a.name.split(".")[0]] = a.name
            elif isinstance(st, ast.ImportFrom):
                mod = ("." * st.level) + (st.module or "")
                for a in st.names:
                    self.imports[a.asname or a.name] = mod + ":" + a.name
            elif isinstance(st, ast.ClassDef):
                self._index_class(st, self.name + "." + st.name, None)
            elif isinstance(st, (ast.FunctionDef, ast.AsyncFunctionDef)):
                fi = FuncInfo(self, st, self.name + "." + st.name)
                self.functions[st.name] = fi
                self._index_nested(fi)
            elif isinstance(st, ast.Assign):
                for t in st.targets:
                    if isinstance(t, ast.Name):
                        self.assigns[t.id] = st.value
            elif isinstance(st, ast.AnnAssign) and isinstance(st.target, ast.Name):
                if st.value is not None:
                    self.assigns[st.target.id] = st.value

    def _index_class(self, node, qual, outer):
        ci = ClassInfo(self, node, qual, outer)
        if outer is None:
            self.classes[node.name] = ci
        else:
            outer.nested[node.name] = ci
        for st in node.body:
            if isinstance(st, (ast.FunctionDef, ast.AsyncFunctionDef)):
                fi = FuncInfo(self, st, qual + "." + st.name, cls=ci)
                ci.methods[st.name] = fi
                self._index_nested(fi)
            elif isinstance(st, ast.ClassDef):
                self._index_class(st, qual + "." + st.name, ci)
            elif isinstance(st, ast.Assign):
                for t in st.targets:
                    if isinstance(t, ast.Name):
                        ci.fields[t.id] = st.type_comment
            elif isinstance(st, ast.AnnAssign) and isinstance(st.target, ast.Name):
                ci.fields[st.target.id] = ast.unparse(st.annotation)
        return ci

    def _index_nested(self, fi: FuncInfo):
        for st in ast.walk(fi.node):
            if st is fi.node:
                continue
            if isinstance(st, (ast.FunctionDef, ast.AsyncFunctionDef)):
                # only direct nesting level is registered by name; deeper ones are
                # registered under their own direct parent when that one is indexed
                if _direct_parent_func(fi.node, st) is fi.node:
                    sub = FuncInfo(
                        self, st, fi.qual + "." + st.name, cls=fi.cls, parent=fi
                    )
                    fi.nested[st.name] = sub
                    self._index_nested(sub)

    def all_funcs(self):
        def rec(fi):
            yield fi
            for s in fi.nested.values():
                yield from rec(s)

        for f in self.functions.values():
            yield from rec(f)
        for c in self.all_classes():
            for m in c.methods.values():
                yield from rec(m)

    def all_classes(self):
        def rec(ci):
            yield ci
            for s in ci.nested.values():
                yield from rec(s)

        for c in self.classes.values():
            yield from rec(c)


def _direct_parent_func(root, target):
    """Return the innermost function node of `root`'s subtree that encloses `target`."""
    result = [None]

    def visit(node, cur):
        for ch in ast.iter_child_nodes(node):
            if ch is target:
                result[0] = cur
                return True
            nxt = cur
            if isinstance(ch, (ast.FunctionDef, ast.AsyncFunctionDef, ast.Lambda)):
                nxt = ch
            if visit(ch, nxt):
                return True
        return False

    visit(root, root)
    return result[0]


class Repo:
    """All modules of twosigma/memento, from disk or from an overlay {relpath: source}."""

    def __init__(self, root: Optional[str] = None, overlay: Optional[Dict[str, str]] = None, inline: bool = True):
        self.root = root or repo_root()
        self.overlay = overlay or {}
        self.modules: Dict[str, Module] = {}
        pkg = os.path.join(self.root, PKG_DIR)
        if not os.path.isdir(pkg):
            raise AnalysisError("package directory %s not found" % pkg)
        for fn in sorted(os.listdir(pkg)):
            if not fn.endswith(".py"):
                continue
            rel = os.path.join(PKG_DIR, fn)
            if rel in self.overlay:
                src = self.overlay[rel]
            else:
                with open(os.path.join(self.root, rel), "r", encoding="utf-8") as f:
                    src = f.read()
            name = fn[:-3]
            self.modules[name] = Module(name, rel, src)
        self.refresh_class_index()
        self.inliner = None
        self.renamed = {}
        self.reoutlined = {}
        self.hoisted = []
        if inline:
            from .inline import flatten, load_inventory
            from .unrename import recover
            self.renamed = recover(self, load_inventory())
            from .exitstack import desugar
            self.exitstacks = desugar(self)
            from .unroll import unroll_tables
            self.unrolled = unroll_tables(self)
            from .outline import reoutline
            self.reoutlined = reoutline(self, load_inventory())
            self.inliner = flatten(self)
            # nested helpers that were hoisted to module level are offered under their old place as well
            for (scope, name, target) in getattr(self, "hoisted", []):
                host, tgt = self.try_func(scope), self.try_func(target)
                if host is not None and tgt is not None and name not in host.nested:
                    host.nested[name] = tgt

    def refresh_class_index(self):
        self._class_by_name: Dict[str, List[ClassInfo]] = {}
        for m in self.modules.values():
            for c in m.all_classes():
                self._class_by_name.setdefault(c.name, []).append(c)

    # ---- lookup -----------------------------------------------------------------
    def module(self, name) -> Module:
        if name not in self.modules:
            raise AnalysisError("module %s not found" % name)
        return self.modules[name]

    def cls(self, qual) -> ClassInfo:
        parts = qual.split(".")
        if len(parts) < 2:
            raise AnalysisError("class %s not found" % qual)
        m = self.module(parts[0])
        cur = m.classes.get(parts[1])
        if cur is None:
            raise AnalysisError("class %s not found" % qual)
        for p in parts[2:]:
            cur = cur.nested.get(p)
            if cur is None:
                raise AnalysisError("class %s not found" % qual)
        return cur

    def try_cls(self, qual):
        try:
            if qual.split(".")[0] not in self.modules:
                return None
            return self.cls(qual)
        except AnalysisError:
            return None

    def func(self, qual) -> FuncInfo:
        f = self.try_func(qual)
        if f is None:
            raise AnalysisError("function %s not found" % qual)
        return f

    def try_func(self, qual) -> Optional[FuncInfo]:
        parts = qual.split(".")
        m = self.modules.get(parts[0])
        if m is None:
            return None
        rest = parts[1:]
        cur_c = None
        cur_f = None
        i = 0
        # descend classes
        if rest and rest[0] in m.classes:
            cur_c = m.classes[rest[0]]
            i = 1
            while i < len(rest) and rest[i] in cur_c.nested:
                cur_c = cur_c.nested[rest[i]]
                i += 1
            if i >= len(rest):
                return None
            cur_f = cur_c.methods.get(rest[i])
            i += 1
        elif rest:
            cur_f = m.functions.get(rest[0])
            i = 1
        while cur_f is not None and i < len(rest):
            cur_f = cur_f.nested.get(rest[i])
            i += 1
        return cur_f

    def classes_named(self, name) -> List[ClassInfo]:
        return self._class_by_name.get(name, [])

    def all_classes(self):
        for m in self.modules.values():
            yield from m.all_classes()

    def all_funcs(self):
        for m in self.modules.values():
            yield from m.all_funcs()

    # ---- hierarchy --------------------------------------------------------------
    def resolve_base(self, ci: ClassInfo, base_expr: str) -> Optional[ClassInfo]:
        """Resolve a base-class expression (e.g. 'Codec.BlobStrategy', 'StorageBackend')."""
        parts = base_expr.split(".")
        # sibling nested class / outer class chain
        head = parts[0]
        cand = None
        o = ci.outer
        while o is not None and cand is None:
            if head in o.nested:
                cand = o.nested[head]
            elif o.name == head:
                cand = o
            o = o.outer
        if cand is None and head in ci.module.classes:
            cand = ci.module.classes[head]
        if cand is None and head in ci.module.imports:
            origin = ci.module.imports[head]
            if ":" in origin:
                modname, attr = origin.split(":")
                modname = modname.lstrip(".").split(".")[-1]
                mm = self.modules.get(modname)
                if mm and attr in mm.classes:
                    cand = mm.classes[attr]
        if cand is None:
            lst = self.classes_named(head)
            if len(lst) == 1:
                cand = lst[0]
        for p in parts[1:]:
            if cand is None:
                return None
            cand = cand.nested.get(p)
        return cand

    def bases(self, ci: ClassInfo) -> List[ClassInfo]:
        out = []
        for b in ci.base_exprs:
            r = self.resolve_base(ci, b)
            if r is not None:
                out.append(r)
        return out

    def mro(self, ci: ClassInfo) -> List[ClassInfo]:
        seen = []

        def rec(c):
            if c in seen:
                return
            seen.append(c)
            for b in self.bases(c):
                rec(b)

        rec(ci)
        return seen

    def is_subclass(self, ci: ClassInfo, base: ClassInfo) -> bool:
        return base in self.mro(ci)

    def subclasses(self, base: ClassInfo, strict=True) -> List[ClassInfo]:
        out = []
        for c in self.all_classes():
            if base in self.mro(c) and (c is not base or not strict):
                out.append(c)
        return out

    def find_method(self, ci: ClassInfo, name: str) -> Optional[FuncInfo]:
        for c in self.mro(ci):
            if name in c.methods:
                return c.methods[name]
        return None

    def is_abstract(self, fi: FuncInfo) -> bool:
        return any("abstractmethod" in d for d in fi.decorators)

    def field_type(self, ci: ClassInfo, name: str) -> Optional[str]:
        for c in self.mro(ci):
            t = c.fields.get(name)
            if t:
                return t
        return None


_TYPE_HEAD = re.compile(r"^[A-Za-z_][A-Za-z_0-9\.]*")


def type_head(t: Optional[str]) -> Optional[str]:
    """'Optional[Dict[str, X]]' -> 'Dict' ; 'Optional[Foo]' -> 'Foo' ; '"Foo"' -> 'Foo'."""
    if not t:
        return None
    t = t.strip().strip("'\"")
    m = re.match(r"^(Optional|typing\.Optional)\[(.*)\]$", t)
    if m:
        return type_head(m.group(2))
    m = _TYPE_HEAD.match(t)
    return m.group(0) if m else None
