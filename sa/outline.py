"""Re-outlining of private helpers that a change inlined into their caller and removed.

The inverse of sa/inline.py: when a private helper of the reference tree no longer exists (and was not
merely renamed, sa/unrename.py), but the statements of its reference body occur — up to a consistent
renaming of names — as a contiguous run in one of its reference callers, that run is folded back into a
helper of the reference name, built from the CURRENT statements (never from the reference text), and
replaced by a call.  The rules anchored on the helper then analyse today's code in the shape they know.

  helper body  s1 .. sn-1 ; return E        host   r1 .. rn-1 ; t = E'      (ri ~ si, E' ~ E)
                                            ==>    t = self.helper(a1 .. ak)        + def helper(p1..pk): r1 .. rn-1 ; return E'
  helper body  s1 .. sn   (no value)        host   r1 .. rn                  ==>    self.helper(a1 .. ak)

`~` is equality of the syntax trees under one bijection of names (locals, and parameters onto the names the
host uses in their place).  Anything that does not match exactly is left alone: the rules then fall back
on the host (report.Checker.fn) or report that they cannot analyse the tree.
"""
import ast
import copy
from typing import Dict, List, Optional, Tuple

FUNC = (ast.FunctionDef, ast.AsyncFunctionDef)


def _strip_doc(body):
    if body and isinstance(body[0], ast.Expr) and isinstance(body[0].value, ast.Constant) and isinstance(body[0].value.value, str):
        return body[1:]
    return body


def _unify(a, b, m: Dict[str, str], rm: Dict[str, str]) -> bool:
    """Are syntax trees a (reference) and b (host) equal under the name bijection m (a-name -> b-name)?"""
    if isinstance(a, ast.Return) and a.value is not None and isinstance(b, ast.Assign) and len(b.targets) == 1 and isinstance(b.targets[0], ast.Name):
        # `return E` inside the helper's with / try  ~  `t = E'` at the same place in the host
        tgt = rm.get("\0ret")
        if tgt is not None and tgt != b.targets[0].id:
            return False
        if not _unify(a.value, b.value, m, rm):
            return False
        rm["\0ret"] = b.targets[0].id
        b._outlined_return = True
        return True
    if type(a) is not type(b):
        return False
    if isinstance(a, ast.Name):
        x, y = a.id, b.id
        if x in m or y in rm:
            return m.get(x) == y and rm.get(y) == x
        m[x] = y
        rm[y] = x
        return True
    if isinstance(a, ast.arg):
        x, y = a.arg, b.arg
        if x in m or y in rm:
            return m.get(x) == y and rm.get(y) == x
        m[x] = y
        rm[y] = x
        return True
    if isinstance(a, ast.Constant):
        return type(a.value) is type(b.value) and a.value == b.value
    if isinstance(a, ast.Expr) and isinstance(a.value, ast.Constant) and isinstance(a.value.value, str):
        return isinstance(b, ast.Expr) and isinstance(b.value, ast.Constant)
    for fld in a._fields:
        if fld in ("ctx", "type_comment", "lineno", "col_offset", "end_lineno", "end_col_offset", "annotation", "returns", "type_params"):
            continue
        va, vb = getattr(a, fld, None), getattr(b, fld, None)
        if isinstance(va, list):
            if not isinstance(vb, list):
                return False
            la = [x for x in va if not (isinstance(x, ast.Expr) and isinstance(x.value, ast.Constant) and isinstance(x.value.value, str) and fld == "body")]
            lb = [x for x in vb if not (isinstance(x, ast.Expr) and isinstance(x.value, ast.Constant) and isinstance(x.value.value, str) and fld == "body")]
            if len(la) != len(lb):
                return False
            for x, y in zip(la, lb):
                if isinstance(x, ast.AST):
                    if not _unify(x, y, m, rm):
                        return False
                elif x != y:
                    return False
        elif isinstance(va, ast.AST):
            if not isinstance(vb, ast.AST) or not _unify(va, vb, m, rm):
                return False
        elif va != vb:
            return False
    return True


def _blocks(node):
    for f in ("body", "orelse", "finalbody"):
        b = getattr(node, f, None)
        if isinstance(b, list) and b and isinstance(b[0], ast.stmt):
            yield b
    for h in getattr(node, "handlers", []) or []:
        yield h.body


def reoutline(repo, inv) -> Dict[str, str]:
    """Returns {helper qual: host qual} for every helper folded back."""
    sources = inv.get("sources") or {}
    callers = inv.get("callers") or {}
    done: Dict[str, str] = {}
    changed = set()
    for qual, src in sources.items():
        if repo.try_func(qual) is not None or "." not in qual:
            continue
        try:
            ref = ast.parse(src).body[0]
        except SyntaxError:
            continue
        if not isinstance(ref, FUNC):
            continue
        from .canon import canonicalise
        canonicalise(ast.Module(body=[ref], type_ignores=[]))
        body = _strip_doc(list(ref.body))
        if not body:
            continue
        ret = body[-1].value if isinstance(body[-1], ast.Return) and body[-1].value is not None else None
        stmts = body[:-1] if isinstance(body[-1], ast.Return) else body
        nested_ret = any(isinstance(x, ast.Return) for s in stmts for x in ast.walk(s))
        if nested_ret and (ret is not None or sum(1 for s in stmts for x in ast.walk(s) if isinstance(x, ast.Return)) != 1):
            continue  # several exits: not a straight run
        params = [a.arg for a in ref.args.posonlyargs + ref.args.args + ref.args.kwonlyargs]
        is_method = bool(params) and params[0] in ("self", "cls")
        defined = False
        for hq in callers.get(qual, []) * 4:
            host = repo.try_func(hq)
            if host is None or host.parent is not None:
                continue
            hit = _find_run(host.node, stmts, ret)
            if hit is None:
                continue
            block, i, n, m, target = hit
            # a local the run binds and the host still reads after the run (other than the value handed back) would be
            # left unbound in the host: such a run is not folded back - the rules see the inlined form instead
            run_ = block[i:i + n]
            bound_in_run = {x.id for s_ in run_ for x in ast.walk(s_) if isinstance(x, ast.Name) and isinstance(x.ctx, ast.Store)}
            handed_back = set()
            if ret is not None and target == "assign":
                handed_back = {t_.id for t_ in block[i + n].targets if isinstance(t_, ast.Name)}
            after = block[i + n + (1 if ret is not None else 0):]
            outer_reads = set()
            for s_ in after:
                for x in ast.walk(s_):
                    if isinstance(x, ast.Name) and isinstance(x.ctx, ast.Load):
                        outer_reads.add(x.id)
            params_host = {a.arg for a in host.node.args.posonlyargs + host.node.args.args + host.node.args.kwonlyargs}
            bound_before = {x.id for s_ in block[:i] for x in ast.walk(s_) if isinstance(x, ast.Name) and isinstance(x.ctx, ast.Store)} | params_host
            leaking = (bound_in_run & outer_reads) - handed_back - bound_before
            if leaking and ret is not None:
                # the value handed back may itself be named by the leaking local (`t = E` with later reads of a run local)
                continue
            # parameters of the helper = what its reference parameters were unified with
            m.pop("\0ret", None)
            pnames = [m.get(p, p) for p in params]
            if len(set(pnames)) != len(pnames):
                continue
            run = block[i:i + n]
            new_body = [copy.deepcopy(s) for s in run]
            ret_target = None
            if nested_ret:
                # the single nested `return E` of the helper is an assignment in the host: turn the copy back
                for s_ in new_body:
                    for par in ast.walk(s_):
                        for blk in _blocks(par):
                            for k_, st_ in enumerate(blk):
                                if getattr(st_, "_outlined_return", False):
                                    ret_target = st_.targets[0]
                                    blk[k_] = ast.copy_location(ast.Return(value=st_.value), st_)
                for s_ in run:
                    for x_ in ast.walk(s_):
                        if getattr(x_, "_outlined_return", False):
                            x_._outlined_return = False
                if ret_target is None:
                    continue
            if ret is not None:
                new_body.append(ast.Return(value=copy.deepcopy(block[i + n].value)))
            if not new_body:
                continue
            fdef = ast.FunctionDef(name=ref.name, args=copy.deepcopy(ref.args), body=new_body, decorator_list=copy.deepcopy(ref.decorator_list),
                                   returns=None, type_comment=None)
            try:
                fdef.type_params = []
            except Exception:
                pass
            # rename the parameters to the host's names
            for a in fdef.args.posonlyargs + fdef.args.args + fdef.args.kwonlyargs:
                a.arg = m.get(a.arg, a.arg)
                a.annotation = None
            static = any(isinstance(d, ast.Name) and d.id == "staticmethod" for d in ref.decorator_list)
            args = [ast.Name(id=p, ctx=ast.Load()) for p in (pnames[1:] if is_method else pnames)]
            home = repo.try_cls(qual.rsplit(".", 1)[0])
            if home is not None and (is_method or static):
                if is_method:
                    recv = ast.Name(id=pnames[0], ctx=ast.Load())
                else:
                    # static helper: address it through its class path, as the reference callers do
                    parts = qual.split(".")[1:-1]
                    recv = ast.Name(id=parts[0], ctx=ast.Load())
                    for p_ in parts[1:]:
                        recv = ast.Attribute(value=recv, attr=p_, ctx=ast.Load())
                fn = ast.Attribute(value=recv, attr=ref.name, ctx=ast.Load())
            else:
                fn = ast.Name(id=ref.name, ctx=ast.Load())
            call = ast.Call(func=fn, args=args, keywords=[])
            if ret is not None:
                new_stmt = ast.Assign(targets=[block[i + n].targets[0]], value=call) if target == "assign" else ast.Return(value=call)
                block[i:i + n + 1] = [ast.copy_location(new_stmt, run[0] if run else block[i])]
            elif nested_ret:
                block[i:i + n] = [ast.copy_location(ast.Assign(targets=[copy.deepcopy(ret_target)], value=call), run[0])]
            else:
                block[i:i + n] = [ast.copy_location(ast.Expr(value=call), run[0])]
            owner = home.node if home is not None else host.module.tree
            if not defined:
                ast.copy_location(fdef, host.node)
                owner.body.append(fdef)
                defined = True
            ast.fix_missing_locations(owner)
            ast.fix_missing_locations(host.node)
            done[qual] = hq
            changed.add(host.module.name)
    for name in changed:
        repo.modules[name].reindex()
    if changed:
        repo.refresh_class_index()
    return done


def _find_run(host_node, stmts, ret) -> Optional[Tuple[list, int, int, Dict[str, str], str]]:
    n = len(stmts)
    for node in ast.walk(host_node):
        if isinstance(node, FUNC) and node is not host_node:
            continue
        for block in _blocks(node):
            need = n + (1 if ret is not None else 0)
            for i in range(0, len(block) - need + 1):
                m: Dict[str, str] = {"self": "self", "cls": "cls"}
                rm: Dict[str, str] = {"self": "self", "cls": "cls"}
                ok = True
                for k in range(n):
                    if not _unify(stmts[k], block[i + k], m, rm):
                        ok = False
                        break
                if not ok:
                    continue
                target = None
                if ret is not None:
                    nxt = block[i + n]
                    if isinstance(nxt, ast.Assign) and len(nxt.targets) == 1 and _unify(ret, nxt.value, m, rm):
                        target = "assign"
                    elif isinstance(nxt, ast.Return) and nxt.value is not None and _unify(ret, nxt.value, m, rm):
                        target = "return"
                    else:
                        continue
                if n == 0 and ret is not None and isinstance(ret, (ast.Name, ast.Constant)):
                    continue  # trivial
                return block, i, n, m, target
    return None
