"""Rule-liveness self-validation for the thorough tier (breaking edits must fire, benign
twins must stay silent). Filled in by sa/mutants.py; see DESIGN.md section 3."""


def run(prop, repo, seed):
    try:
        from . import mutants
    except ImportError:
        return {"mutants": 0, "note": "no mutant table registered"}
    return mutants.run(prop, repo, seed)
