"""Recovery of private names that a change merely renamed.

The rules locate public entry points by their API names and a number of private helpers, fields and
module-level tables by the names they have on the reference tree.  A consistent rename of a private
function, method, class, attribute or module global changes no behaviour; without this module it would
make those anchors vanish (exit 2) or make a rule miss its slot.  Before inlining (sa/inline.py) the
loader therefore maps renamed private names back:

  functions / methods / classes
      a name of the reference inventory that no longer exists in its scope (module or class) is matched
      against the names that are new in that scope, by the *shape* of the definition — the syntax tree with
      every identifier anonymised and docstrings removed (sa/inventory.json records that shape for every
      reference function).  A pair is accepted when the shapes are equal, or when the new definition is
      the unique closest one (token similarity >= 0.72, clearly ahead of the runner-up); a vanished name
      with no acceptable partner was removed / inlined, a new name with none is a new helper.
  attributes (`self.x`, class-level names) and module globals
      within one owner, vanished and new names are paired by the profile of their uses (which functions
      read / write them how often, by recovered function name); a single vanished name and a single new
      one with compatible profiles are paired directly.

The new name is then rewritten to the reference name throughout the parsed trees (definitions, attribute
accesses, bare names, string-free).  Nothing is written to disk and no rule fires because of a rename; the
mapping is listed in the evidence.  Public names (no leading underscore) are only mapped for nested
functions / classes, which cannot be imported.
"""
import ast
import difflib
from typing import Dict, List, Optional, Tuple

FUNC = (ast.FunctionDef, ast.AsyncFunctionDef)


def shape_tokens(node) -> List[str]:
    """Anonymised token sequence of a function / class definition."""
    out: List[str] = []

    def rec(n, top=False):
        if isinstance(n, ast.Expr) and isinstance(n.value, ast.Constant) and isinstance(n.value.value, str):
            return  # docstrings / bare strings
        if isinstance(n, ast.AnnAssign):
            # `x: T = v` and `x = v  # type: T` have the same shape
            out.append("Assign")
            rec(n.target)
            if n.value is not None:
                rec(n.value)
            return
        out.append(type(n).__name__)
        if isinstance(n, ast.Constant):
            v = n.value
            out.append(repr(v) if not isinstance(v, str) or len(v) < 40 else "str")
        elif isinstance(n, ast.Attribute) and not (n.attr.startswith("_") and not n.attr.startswith("__")):
            out.append("." + n.attr)  # public attribute / method names are part of the shape
        elif isinstance(n, ast.Name) and n.id in ("self", "cls", "True", "False", "None"):
            out.append(n.id)
        for fld, val in ast.iter_fields(n):
            if fld in ("ctx", "type_comment", "lineno", "col_offset", "end_lineno", "end_col_offset", "returns", "annotation", "decorator_list", "type_params"):
                continue
            if isinstance(n, FUNC) and fld == "args":
                a = n.args
                out.append("args%d" % len(a.posonlyargs + a.args + a.kwonlyargs))
                continue
            if isinstance(val, list):
                for x in val:
                    if isinstance(x, ast.AST):
                        rec(x)
            elif isinstance(val, ast.AST):
                rec(val)

    rec(node, True)
    return out


def _sim(a: List[str], b: List[str]) -> float:
    if a == b:
        return 1.0
    return difflib.SequenceMatcher(None, a, b, autojunk=False).ratio()


def _match(vanished: Dict[str, List[str]], new: Dict[str, List[str]], allow_public=False) -> Dict[str, str]:
    """-> {new name: old name}"""
    out: Dict[str, str] = {}
    if not vanished or not new:
        return out
    cands = []
    for vn, vs in vanished.items():
        for nn, ns in new.items():
            if not allow_public and not (vn.startswith("_") and nn.startswith("_")):
                continue
            if vn.startswith("__") and vn.endswith("__"):
                continue
            cands.append((_sim(vs, ns), vn, nn))
    cands.sort(reverse=True)
    used_v, used_n = set(), set()
    for (s, vn, nn) in cands:
        if vn in used_v or nn in used_n:
            continue
        if s < 0.72:
            break
        # the runner-up for either side must be clearly worse
        rivals = [s2 for (s2, v2, n2) in cands if (v2 == vn) != (n2 == nn) and v2 not in used_v and n2 not in used_n]
        if rivals and max(rivals) > s - 0.08 and s < 0.999:
            continue
        out[nn] = vn
        used_v.add(vn)
        used_n.add(nn)
    return out


class _Renamer(ast.NodeTransformer):
    def __init__(self, attr_map: Dict[str, str], name_map: Dict[str, str]):
        self.attr_map = attr_map
        self.name_map = name_map

    def visit_Attribute(self, n):
        self.generic_visit(n)
        if n.attr in self.attr_map:
            n.attr = self.attr_map[n.attr]
        return n

    def visit_Name(self, n):
        if n.id in self.name_map:
            n.id = self.name_map[n.id]
        return n

    def visit_FunctionDef(self, n):
        if n.name in self.attr_map:
            n.name = self.attr_map[n.name]
        elif n.name in self.name_map:
            n.name = self.name_map[n.name]
        self.generic_visit(n)
        return n

    visit_AsyncFunctionDef = visit_FunctionDef

    def visit_ClassDef(self, n):
        if n.name in self.name_map:
            n.name = self.name_map[n.name]
        elif n.name in self.attr_map:
            n.name = self.attr_map[n.name]
        self.generic_visit(n)
        return n

    def visit_Global(self, n):
        n.names = [self.name_map.get(x, x) for x in n.names]
        return n

    def visit_alias(self, n):
        if n.name in self.name_map and n.asname is None:
            n.name = self.name_map[n.name]
        return n


def _use_profile(repo, owner_cls, name: str, self_attr: bool) -> Dict[str, Tuple[int, int]]:
    """function name -> (loads, stores) of the attribute / global."""
    prof: Dict[str, Tuple[int, int]] = {}
    funcs = list(owner_cls.methods.values()) if owner_cls is not None else []
    for fi in funcs:
        ld = st = 0
        for n in ast.walk(fi.node):
            if isinstance(n, ast.Attribute) and n.attr == name:
                if isinstance(n.ctx, ast.Load):
                    ld += 1
                else:
                    st += 1
        if ld or st:
            prof[fi.name] = (ld, st)
    return prof


def recover(repo, inv) -> Dict[str, str]:
    """Rename renamed private names back to their reference names, in place.  Returns {new: old}."""
    shapes = inv.get("shapes") or {}
    known_f = set(inv.get("functions") or [])
    if not shapes or not known_f:
        return {}
    mapping: Dict[str, str] = {}
    attr_map: Dict[str, str] = {}
    name_map: Dict[str, str] = {}
    # ---- classes (module level and nested)
    known_c = set(inv.get("classes") or [])
    cur_c = {c.qual: c for c in repo.all_classes()}
    for scope in {q.rsplit(".", 1)[0] for q in known_c}:
        van = {q.rsplit(".", 1)[1]: (inv.get("class_shapes") or {}).get(q, []) for q in known_c if q.rsplit(".", 1)[0] == scope and q not in cur_c}
        new = {q.rsplit(".", 1)[1]: shape_tokens(c.node) for q, c in cur_c.items() if q.rsplit(".", 1)[0] == scope and q not in known_c}
        for nn, vn in _match(van, new).items():
            mapping["%s.%s" % (scope, nn)] = "%s.%s" % (scope, vn)
            name_map[nn] = vn
            attr_map[nn] = vn
    # class renames change the scope of their methods: apply them first
    if name_map:
        _apply(repo, attr_map, name_map)
        attr_map, name_map = {}, {}
    # ---- functions and methods (incl. nested functions, scope = enclosing qualname)
    cur_f = {fi.qual: fi for fi in repo.all_funcs()}
    scopes = {q.rsplit(".", 1)[0] for q in known_f}
    for scope in sorted(scopes):
        van = {q.rsplit(".", 1)[1]: shapes.get(q, []) for q in known_f if q.rsplit(".", 1)[0] == scope and q not in cur_f}
        new = {q.rsplit(".", 1)[1]: shape_tokens(fi.node) for q, fi in cur_f.items() if q.rsplit(".", 1)[0] == scope and q not in known_f}
        if not van or not new:
            continue
        nested_scope = scope in cur_f  # the scope is itself a function: nested defs cannot be imported
        for nn, vn in _match(van, new, allow_public=nested_scope).items():
            mapping["%s.%s" % (scope, nn)] = "%s.%s" % (scope, vn)
            if scope in cur_c or nested_scope is False and "." in scope:
                attr_map[nn] = vn
                name_map[nn] = vn  # Class.m / bare references inside the class body
            else:
                name_map[nn] = vn
                attr_map[nn] = vn  # module.f
    if attr_map or name_map:
        _apply(repo, attr_map, name_map)
        attr_map, name_map = {}, {}
    # ---- nested functions / classes that were hoisted to module (or class) level: same body, new home
    cur_f = {fi.qual: fi for fi in repo.all_funcs()}
    cur_c = {c.qual: c for c in repo.all_classes()}
    hoisted = []
    hoisted_classes = []
    for q in sorted(known_f):
        scope, name = q.rsplit(".", 1)
        if q in cur_f or scope not in cur_f or scope.count(".") < 1:
            continue  # still there, or not nested in a function that still exists
        modname = q.split(".")[0]
        cands = {fq: shape_tokens(fi.node) for fq, fi in cur_f.items() if fq not in known_f and fq.split(".")[0] == modname and fi.parent is None
                 and fq not in mapping}
        stem = name.strip("_").lower()
        # a hoisted helper keeps its name (give or take an underscore / prefix); the shape differs a little
        # because closure variables became parameters
        cands = {fq: sh for fq, sh in cands.items() if stem and (stem in fq.rsplit(".", 1)[1].lower() or fq.rsplit(".", 1)[1].strip("_").lower() in stem)}
        best = sorted(((_sim(shapes.get(q, []), sh), fq) for fq, sh in cands.items()), reverse=True)
        if best and best[0][0] >= 0.5 and (len(best) == 1 or best[1][0] < best[0][0] - 0.08):
            hoisted.append((scope, name, best[0][1]))
            mapping[best[0][1]] = q + " (hoisted)"
    for q in sorted(known_c):
        scope, name = q.rsplit(".", 1)
        if q in cur_c or scope not in cur_f:
            continue
        modname = q.split(".")[0]
        cands = {cq: shape_tokens(c.node) for cq, c in cur_c.items() if cq not in known_c and cq.split(".")[0] == modname and c.outer is None}
        stem = name.strip("_").lower()
        cands = {cq: sh for cq, sh in cands.items() if stem in cq.rsplit(".", 1)[1].lower()}
        best = sorted(((_sim((inv.get("class_shapes") or {}).get(q, []), sh), cq) for cq, sh in cands.items()), reverse=True)
        if best and best[0][0] >= 0.5:
            mapping[best[0][1]] = q + " (hoisted class)"
            hoisted_classes.append((scope, name, best[0][1]))
    repo.hoisted = hoisted
    repo.hoisted_classes = hoisted_classes
    # ---- attributes and module globals
    from .inline import shared_tables
    known_t = set(inv.get("tables") or [])
    cur_t = shared_tables(repo)
    owners = {t.split(":", 1)[0] for t in known_t}
    cur_c = {c.qual: c for c in repo.all_classes()}
    for owner in sorted(owners):
        van = sorted({t.split(":", 1)[1].replace("self.", "") for t in known_t - cur_t if t.split(":", 1)[0] == owner})
        new = sorted({t.split(":", 1)[1].replace("self.", "") for t in cur_t - known_t if t.split(":", 1)[0] == owner})
        van = [v for v in van if v.startswith("_") and not v.startswith("__")]
        new = [n for n in new if n.startswith("_") and not n.startswith("__")]
        if not van or not new:
            continue
        cls = cur_c.get(owner)
        if cls is not None:
            ref_prof = (inv.get("attr_profiles") or {}).get(owner, {})
            pairs = {}
            for v in van:
                pv = ref_prof.get(v)
                best = None
                for n in new:
                    pn = _use_profile(repo, cls, n, True)
                    if pv is not None and {k: tuple(x) for k, x in pv.items()} == pn:
                        best = n if best is None else "ambiguous"
                if best and best != "ambiguous":
                    pairs[best] = v
            if not pairs and len(van) == 1 and len(new) == 1:
                pairs[new[0]] = van[0]
            for n, v in pairs.items():
                mapping["%s:%s" % (owner, n)] = "%s:%s" % (owner, v)
                attr_map[n] = v
        else:
            # module globals: pair one-to-one when unambiguous by count, else by order of definition
            mod = repo.modules.get(owner)
            if mod is None:
                continue
            if len(van) == len(new):
                order_new = [n for n in mod.assigns if n in new]
                order_old = [v for v in (inv.get("global_order") or {}).get(owner, []) if v in van]
                if len(order_new) == len(order_old) == len(van):
                    for n, v in zip(order_new, order_old):
                        mapping["%s:%s" % (owner, n)] = "%s:%s" % (owner, v)
                        name_map[n] = v
                        attr_map[n] = v
    if attr_map or name_map:
        _apply(repo, attr_map, name_map)
    return mapping


def _apply(repo, attr_map, name_map):
    r = _Renamer(attr_map, name_map)
    for m in repo.modules.values():
        r.visit(m.tree)
        m.reindex()
    repo.refresh_class_index()
