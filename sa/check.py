"""Entry point: /venv/bin/python -m sa.check <property id> [--tier quick|thorough] [--replay file]

exit 0: every obligation discharged (known findings printed as KNOWN-FINDING lines)
exit 1: at least one violation not listed in known_findings.json (VIOLATION lines)
exit 2: the analysis itself is broken (ANALYSIS-ERROR line): vanished anchor, unknown idiom
"""
import argparse
import importlib
import json
import os
import sys
import time
import traceback

from .loader import Repo, AnalysisError
from .report import Checker, finish


def run_property(prop: str, repo: Repo, tier: str, exc_mode: str, cg=None) -> Checker:
    ck = Checker(prop, repo, cg=cg, tier=tier, exc_mode=exc_mode)
    mod = importlib.import_module("sa.rules.%s" % prop.lower())
    try:
        mod.check(ck)
    except AnalysisError as e:
        ck.analysis_errors.append(str(e))
    if ck.analysis_errors:
        from .report import split_known
        _known, new = split_known(ck)
        if not new:
            # nothing NEW was decided against the tree (listed known findings do not count) and part of the
            # analysis could not run: fail closed
            raise AnalysisError("; ".join(ck.analysis_errors))
    return ck


def main(argv=None) -> int:
    ap = argparse.ArgumentParser()
    ap.add_argument("prop")
    ap.add_argument("--tier", default=os.environ.get("VERIF_TIER", "quick"))
    ap.add_argument("--replay", default=None)
    ap.add_argument("--repo", default=None)
    ap.add_argument("--no-evidence", action="store_true", help="development: do not rewrite evidence/<id>.json")
    args = ap.parse_args(argv)
    prop = args.prop.upper()
    tier = args.tier if args.tier in ("quick", "thorough") else "quick"
    try:
        seed = int(os.environ.get("VERIF_SEED", "0"))
    except ValueError:
        seed = 0
    t0 = time.time()
    try:
        repo = Repo(args.repo)
        if args.replay:
            with open(args.replay) as f:
                rp = json.load(f)
            ck = run_property(prop, repo, tier, "explicit")
            hits = [o for o in ck.obs if o.rule == rp["rule"] and o.key == rp["key"]]
            if not hits:
                print("replay: obligation %s %s no longer exists on this tree" % (rp["rule"], rp["key"]))
                return 0
            rc = 0
            for o in hits:
                print("%s %s %s %s :: %s" % (o.verdict.upper(), o.where, o.rule, o.key, o.msg))
                if o.verdict == "violation":
                    rc = 1
            return rc
        selfval = None
        if tier == "quick":
            ck = run_property(prop, repo, tier, "explicit")
        else:
            # thorough: the same rules on the CFG with exceptional edges, then the
            # rule-liveness self-validation (breaking edits must fire, benign twins must not)
            ck = run_property(prop, repo, tier, "all")
            ck_explicit = run_property(prop, repo, tier, "explicit")
            have = {(o.rule, o.key) for o in ck.obs}
            for o in ck_explicit.obs:
                if (o.rule, o.key) not in have:
                    ck.obs.append(o)
                elif o.verdict == "violation":
                    # a violation in either mode counts
                    for p in ck.obs:
                        if (p.rule, p.key) == (o.rule, o.key) and p.verdict == "ok":
                            p.verdict = "violation"
                            p.msg = o.msg
            from . import selfval as sv

            selfval = sv.run(prop, repo, seed)
            if selfval.get("broken"):
                for b in selfval["broken"]:
                    print("ANALYSIS-ERROR self-validation: %s" % b)
                finish(ck, t0, seed, selfval)
                return 2
        return finish(ck, t0, seed, selfval, replay="no-evidence" if args.no_evidence else None)
    except AnalysisError as e:
        print("ANALYSIS-ERROR property=%s %s" % (prop, e))
        return 2
    except Exception:  # noqa
        traceback.print_exc()
        print("ANALYSIS-ERROR property=%s internal error (traceback above)" % prop)
        return 2


if __name__ == "__main__":
    sys.exit(main())
