"""Inlining of helpers that are new with respect to the reference inventory.

The intraprocedural rules were written (and their instances confirmed) on functions of the
reference tree.  When a later change extracts part of such a function into a new helper — a
private method, a module function, a `@contextmanager` used in a `with` — the rules would no
longer see the statements they reason about.  Before any rule runs, every call of a *new*
function (one whose qualified name is not in sa/inventory.json) is therefore replaced by the
helper's body, when that can be done by a purely structural rewrite:

  * the callee is resolved (self/cls method through the class hierarchy, `Class.m`, module function
    of the same module, or an attribute call whose name designates exactly one new function and
    no reference function);
  * it is not a generator (except a `@contextmanager` used as the single item of a `with`), takes
    no *args / **kwargs, and carries only transparent decorators (staticmethod, classmethod, a
    lock wrapper of the `_synchronized` shape, contextmanager);
  * the call is a whole statement, the value of an assignment / return, or is evaluated
    unconditionally inside a simple statement or an `if` test (it is then hoisted into a temporary);
  * its `return`s can be turned into assignments without duplicating code (tail returns, guard
    clauses, returns in the branches of a final if / try / with).

Anything else is left as a call (the rules then see what they saw before this module existed).
Arguments that are plain names / attribute chains / constants are substituted for parameters the
helper never re-assigns; other arguments are bound to a fresh local first.  Locals of the helper
are renamed only when they clash with a name of the caller.  Locations are kept, so reports
point at the helper's own lines.  A helper whose every call site was inlined is dropped from the
class / module tables; otherwise it stays and is analysed like any other function.

Nothing here decides a property; it is a normalisation, like sa/canon.py.
"""
import ast
import copy
import json
import os
from typing import Dict, List, Optional, Set

FUNC = (ast.FunctionDef, ast.AsyncFunctionDef)
_INV = None
MAX_DEPTH = 4


def load_inventory() -> dict:
    global _INV
    if _INV is None:
        p = os.path.join(os.path.dirname(os.path.abspath(__file__)), "inventory.json")
        try:
            with open(p) as f:
                _INV = json.load(f)
        except OSError:
            _INV = {"functions": None, "tables": None}
    return _INV


def shared_tables(repo) -> Set[str]:
    """Names of state that outlives a call: module-level names, class-level names, self fields."""
    out = set()
    for m in repo.modules.values():
        for name in m.assigns:
            out.add("%s:%s" % (m.name, name))
        for c in m.all_classes():
            for f in c.fields:
                out.add("%s:%s" % (c.qual, f))
            for fi in c.methods.values():
                for n in ast.walk(fi.node):
                    if isinstance(n, (ast.Assign, ast.AnnAssign, ast.AugAssign)):
                        tg = n.targets if isinstance(n, ast.Assign) else [n.target]
                        for t in tg:
                            for x in ast.walk(t):
                                if isinstance(x, ast.Attribute) and isinstance(x.value, ast.Name) and x.value.id in ("self", "cls") \
                                        and isinstance(x.ctx, ast.Store):
                                    out.add("%s:self.%s" % (c.qual, x.attr))
    return out


def new_functions(repo) -> List:
    inv = load_inventory()
    if inv.get("functions") is None:
        return []
    known = set(inv["functions"])
    hoisted = {t for (_s, _n, t) in getattr(repo, "hoisted", [])}
    return [fi for fi in repo.all_funcs() if fi.parent is None and fi.qual not in known and fi.qual not in hoisted]


def new_tables(repo) -> Set[str]:
    inv = load_inventory()
    if inv.get("tables") is None:
        return set()
    return shared_tables(repo) - set(inv["tables"])


def _immutable_default(e) -> bool:
    if isinstance(e, ast.Constant):
        return True
    if isinstance(e, ast.UnaryOp) and isinstance(e.operand, ast.Constant):
        return True
    if isinstance(e, ast.Tuple):
        return all(_immutable_default(x) for x in e.elts)
    if isinstance(e, (ast.Name, ast.Attribute)):
        return True   # a named constant / enum member: the same object wherever it is written
    return False


# ------------------------------------------------------------------------------------------
def _is_pure_arg(e) -> bool:
    if isinstance(e, ast.Constant):
        return True
    if isinstance(e, ast.Name):
        return True
    if isinstance(e, ast.Attribute):
        return _is_pure_arg(e.value)
    return False


def _assigned_names(fn) -> Set[str]:
    out = set()
    for n in ast.walk(fn):
        if isinstance(n, ast.Name) and isinstance(n.ctx, (ast.Store, ast.Del)):
            out.add(n.id)
        elif isinstance(n, ast.ExceptHandler) and n.name:
            out.add(n.name)
        elif isinstance(n, (ast.Import, ast.ImportFrom)):
            for a in n.names:
                out.add((a.asname or a.name).split(".")[0])
        elif isinstance(n, FUNC + (ast.ClassDef,)) and n is not fn:
            out.add(n.name)
    return out


def _all_names(fn) -> Set[str]:
    out = set()
    for n in ast.walk(fn):
        if isinstance(n, ast.Name):
            out.add(n.id)
        elif isinstance(n, ast.arg):
            out.add(n.arg)
    return out


def _params(fn):
    a = fn.args
    if a.vararg or a.kwarg:
        return None
    pos = [x.arg for x in a.posonlyargs + a.args]
    defaults = {}
    d = a.defaults
    for name, dv in zip(pos[len(pos) - len(d):], d):
        defaults[name] = dv
    kwo = [x.arg for x in a.kwonlyargs]
    for name, dv in zip(kwo, a.kw_defaults):
        if dv is not None:
            defaults[name] = dv
    return pos, kwo, defaults


def _has_yield(fn) -> bool:
    for n in _walk_own(fn):
        if isinstance(n, (ast.Yield, ast.YieldFrom)):
            return True
    return False


def _walk_own(fn):
    """Nodes of fn's own body, not descending into nested function / class definitions."""
    stack = list(fn.body)
    while stack:
        n = stack.pop()
        yield n
        for ch in ast.iter_child_nodes(n):
            if isinstance(ch, FUNC + (ast.ClassDef, ast.Lambda)):
                continue
            stack.append(ch)


class _Subst(ast.NodeTransformer):
    def __init__(self, ren: Dict[str, str], sub: Dict[str, ast.AST]):
        self.ren = ren
        self.sub = sub

    def visit_Name(self, node):
        if node.id in self.sub and isinstance(node.ctx, ast.Load):
            return ast.copy_location(copy.deepcopy(self.sub[node.id]), node)
        if node.id in self.ren:
            node.id = self.ren[node.id]
        return node

    def visit_arg(self, node):
        if node.arg in self.ren:
            node.arg = self.ren[node.arg]
        return node

    def visit_ExceptHandler(self, node):
        if node.name and node.name in self.ren:
            node.name = self.ren[node.name]
        self.generic_visit(node)
        return node


def _walk_same_scope(node):
    """node and its descendants, not entering nested functions / lambdas / classes"""
    yield node
    for ch in ast.iter_child_nodes(node):
        if isinstance(ch, (ast.FunctionDef, ast.AsyncFunctionDef, ast.Lambda, ast.ClassDef)):
            continue
        yield from _walk_same_scope(ch)


class NotInlinable(Exception):
    pass


def _always_returns(stmts) -> bool:
    for s in stmts:
        if isinstance(s, (ast.Return, ast.Raise)):
            return True
        if isinstance(s, ast.If) and s.orelse and _always_returns(s.body) and _always_returns(s.orelse):
            return True
        if isinstance(s, ast.With) and _always_returns(s.body):
            return True
        if isinstance(s, ast.Try):
            if s.finalbody and _always_returns(s.finalbody):
                return True
            if _always_returns(s.body + s.orelse) and all(_always_returns(h.body) for h in s.handlers):
                return True
    return False


def _contains_return(stmts) -> bool:
    for s in stmts:
        for n in [s] + list(_walk_own_stmt(s)):
            if isinstance(n, ast.Return):
                return True
    return False


def _walk_own_stmt(s):
    stack = [s]
    while stack:
        n = stack.pop()
        for ch in ast.iter_child_nodes(n):
            if isinstance(ch, FUNC + (ast.ClassDef, ast.Lambda)):
                continue
            yield ch
            stack.append(ch)


def _convert_returns(stmts, mk):
    """Rewrite `return E` as mk(E) (a list of statements), without code duplication.
    Raises NotInlinable when a return sits where that cannot be done structurally."""
    out = []
    i = 0
    while i < len(stmts):
        s = stmts[i]
        rest = stmts[i + 1:]
        if isinstance(s, ast.Return):
            out.extend(mk(s.value, s))
            return out  # what follows is unreachable
        if not _contains_return([s]):
            out.append(s)
            i += 1
            continue
        if isinstance(s, ast.If):
            b_ret = _always_returns(s.body)
            o_ret = _always_returns(s.orelse) if s.orelse else False
            if not rest:
                s.body = _convert_returns(s.body, mk) or [ast.copy_location(ast.Pass(), s)]
                s.orelse = _convert_returns(s.orelse, mk) if s.orelse else []
                out.append(s)
                return out
            if b_ret and not _contains_return(s.orelse):
                # guard clause: the continuation moves into the else branch
                s.body = _convert_returns(s.body, mk) or [ast.copy_location(ast.Pass(), s)]
                s.orelse = _convert_returns(list(s.orelse) + list(rest), mk)
                out.append(s)
                return out
            if o_ret and not _contains_return(s.body):
                s.orelse = _convert_returns(s.orelse, mk) or [ast.copy_location(ast.Pass(), s)]
                s.body = _convert_returns(list(s.body) + list(rest), mk)
                out.append(s)
                return out
            if b_ret and o_ret:
                s.body = _convert_returns(s.body, mk) or [ast.copy_location(ast.Pass(), s)]
                s.orelse = _convert_returns(s.orelse, mk) or [ast.copy_location(ast.Pass(), s)]
                out.append(s)
                return out
            raise NotInlinable("a return inside a branch that can also fall through")
        if isinstance(s, ast.With) and not rest:
            s.body = _convert_returns(s.body, mk) or [ast.copy_location(ast.Pass(), s)]
            out.append(s)
            return out
        if isinstance(s, ast.Try) and not rest:
            s.body = _convert_returns(s.body, mk) or [ast.copy_location(ast.Pass(), s)]
            for h in s.handlers:
                h.body = _convert_returns(h.body, mk) or [ast.copy_location(ast.Pass(), h)]
            if s.orelse:
                s.orelse = _convert_returns(s.orelse, mk)
            if _contains_return(s.finalbody):
                raise NotInlinable("return inside finally")
            out.append(s)
            return out
        if isinstance(s, (ast.With, ast.Try)) and _always_returns([s]):
            # everything after it is unreachable
            return out + _convert_returns([s], mk)
        raise NotInlinable("return inside %s" % type(s).__name__)
    return out


def _wrap_returns(body, mk):
    for s_ in body:
        for n in [s_] + list(_walk_own_stmt(s_)):
            if isinstance(n, (ast.For, ast.AsyncFor, ast.While)) and _contains_return([n]):
                raise NotInlinable("return inside a loop of the helper")

    class R(ast.NodeTransformer):
        def visit_FunctionDef(self, n):
            return n
        visit_AsyncFunctionDef = visit_FunctionDef
        visit_Lambda = visit_FunctionDef

        def visit_Return(self, n):
            return mk(n.value, n) + [ast.copy_location(ast.Break(), n)]

    new_body = []
    for s_ in body:
        r = R().visit(s_)
        new_body.extend(r if isinstance(r, list) else [r])
    # flatten lists produced inside nested blocks
    def fix(block):
        out = []
        for x in block:
            if isinstance(x, list):
                out.extend(fix(x))
            else:
                for fld in ("body", "orelse", "finalbody"):
                    b = getattr(x, fld, None)
                    if isinstance(b, list):
                        setattr(x, fld, fix(b))
                for h in getattr(x, "handlers", []) or []:
                    h.body = fix(h.body)
                out.append(x)
        return out
    new_body = fix(new_body)
    new_body.append(ast.Break())
    loop = ast.While(test=ast.Constant(value=True), body=new_body, orelse=[])
    if body:
        ast.copy_location(loop, body[0])
        ast.copy_location(new_body[-1], body[-1])
    return [loop]


def _lock_wrapper(repo, module, deco_name) -> Optional[str]:
    """If `deco_name` names a repo function of the shape
         def d(fn): def w(self, *a, **k): with self.<lock>: return fn(self, *a, **k); return w
       return '<lock>'."""
    fi = module.functions.get(deco_name)
    if fi is None:
        return None
    inner = [n for n in fi.node.body if isinstance(n, FUNC)]
    if len(inner) != 1:
        return None
    body = [s for s in inner[0].body if not (isinstance(s, ast.Expr) and isinstance(s.value, ast.Constant))]
    if len(body) == 1 and isinstance(body[0], ast.With) and len(body[0].items) == 1:
        ce = body[0].items[0].context_expr
        if isinstance(ce, ast.Attribute) and isinstance(ce.value, ast.Name) and ce.value.id == "self":
            return ce.attr
    return None


class Inliner:
    def __init__(self, repo):
        self.repo = repo
        self.new = new_functions(repo)
        self.new_by_name: Dict[str, List] = {}
        for fi in self.new:
            self.new_by_name.setdefault(fi.name, []).append(fi)
        known = set(load_inventory().get("functions") or [])
        self.known = known
        self.known_names = {q.split(".")[-1] for q in known}
        self._closure_cache: Dict[int, Optional[bool]] = {}
        self.counter = 0
        # a helper that (directly or through other new helpers) calls itself is never inlined
        self._recursive = set()
        calls = {}
        for fi in self.new:
            names = {c.func.attr if isinstance(c.func, ast.Attribute) else (c.func.id if isinstance(c.func, ast.Name) else None)
                     for c in ast.walk(fi.node) if isinstance(c, ast.Call)}
            calls[fi.qual] = {g.qual for nm in names if nm in self.new_by_name for g in self.new_by_name[nm]}
        for q in calls:
            seen, work = set(), list(calls[q])
            while work:
                x = work.pop()
                if x in seen:
                    continue
                seen.add(x)
                work.extend(calls.get(x, ()))
            if q in seen:
                self._recursive.add(q)
        self.inlined_sites: Dict[str, int] = {}
        self.left_sites: Dict[str, int] = {}
        self.log: List[str] = []

    # ---- resolution ----------------------------------------------------------------------
    def resolve(self, call: ast.Call, fi):
        """-> (callee FuncInfo, receiver expr or None) when the call designates a new function."""
        f = call.func
        repo = self.repo
        if isinstance(f, ast.Name):
            loc = self._local_closure(f.id, fi)
            if loc is not None:
                return loc, ("closure", None)
            cal = fi.module.functions.get(f.id)
            if cal is None and f.id in fi.module.imports and ":" in fi.module.imports[f.id]:
                modname, attr = fi.module.imports[f.id].split(":")
                mm = repo.modules.get(modname.lstrip(".").split(".")[-1])
                if mm is not None:
                    cal = mm.functions.get(attr)
            if cal is not None and cal in self.new:
                return cal, None
            return None
        if not isinstance(f, ast.Attribute):
            return None
        name = f.attr
        cands = self.new_by_name.get(name)
        if not cands:
            return None
        recv = f.value
        if isinstance(recv, ast.Name) and recv.id in ("self", "cls") and fi.cls is not None:
            top = fi
            while top.parent is not None:
                top = top.parent
            cal = repo.find_method(top.cls, name) if top.cls is not None else None
            if cal is not None and cal in self.new:
                # an override in a subclass would make the target ambiguous
                subs = [c for c in repo.subclasses(top.cls) if name in c.methods]
                if subs:
                    return None
                return cal, recv
            return None
        # Class.m(...) / Outer.Inner.m(...)
        d = _dotted(recv)
        if d is not None:
            ci = None
            head = d.split(".")[0]
            if fi.cls is not None:
                ci = repo.resolve_base(fi.cls, d)
            if ci is None:
                for c in repo.classes_named(d.split(".")[-1]):
                    if c.qual.endswith(d):
                        ci = c
                        break
            if ci is not None and head[:1].isupper():
                cal = repo.find_method(ci, name)
                if cal is not None and cal in self.new:
                    return cal, ("class", recv)
                return None
        # a local bound once to `C(...)`, C a new class: the method is C's (whatever else goes by that name)
        if isinstance(recv, ast.Name):
            ci = self._new_class_of(recv, fi)
            if ci is not None:
                cal = repo.find_method(ci, name)
                if cal is not None and cal in self.new and not _is_property(cal.node) and not any(
                        isinstance(d, ast.Name) and d.id in ("staticmethod", "classmethod") for d in cal.node.decorator_list):
                    return cal, recv
                return None
        # any receiver: unique new method of that name, and no reference function of that name
        if len(cands) == 1 and name not in self.known_names and cands[0].cls is not None:
            return cands[0], recv
        return None

    def _local_closure(self, name: str, fi):
        """A nested function of the host that is NEW w.r.t. the inventory and only ever called directly
        (`name(...)`, never passed, returned, stored or decorated): calling it is the same as running its body
        in place - free variables are read at the time of the call either way - so it is written out at its
        call sites like any other new helper."""
        top = fi
        while top.parent is not None:
            top = top.parent
        sub = top.nested.get(name)
        if sub is None or sub.qual in self.known:
            return None
        key = id(sub.node)
        if key not in self._closure_cache:
            ok = True
            node = sub.node
            if node.decorator_list or isinstance(node, ast.AsyncFunctionDef):
                ok = False
            a = node.args
            if a.vararg or a.kwarg or any(d is not None and not isinstance(d, ast.Constant) for d in list(a.defaults) + list(a.kw_defaults)):
                ok = False
            if any(isinstance(x, (ast.Nonlocal, ast.Global, ast.Yield, ast.YieldFrom, ast.Await)) for x in ast.walk(node)):
                ok = False
            # the name is bound once (the def) and every other mention is the callee of a call
            callee_ids = {id(c.func) for c in ast.walk(top.node) if isinstance(c, ast.Call)}
            defs = 0
            for x in ast.walk(top.node):
                if isinstance(x, (ast.FunctionDef, ast.AsyncFunctionDef)) and x.name == name and x is not top.node:
                    defs += 1
                if isinstance(x, ast.Name) and x.id == name:
                    if isinstance(x.ctx, ast.Store) or id(x) not in callee_ids:
                        ok = False
            if defs != 1:
                ok = False
            # no call of itself (directly)
            if any(isinstance(c, ast.Call) and isinstance(c.func, ast.Name) and c.func.id == name for c in ast.walk(node)):
                ok = False
            self._closure_cache[key] = ok
        return sub if self._closure_cache[key] else None

    # ---- one call ------------------------------------------------------------------------
    def expand(self, call: ast.Call, callee, recv, mode, target, caller_names: Set[str], depth: int, with_body=None, as_var=None):
        """Return the statement list that replaces the call. mode: drop | assign | return | with"""
        if callee.qual in self._recursive:
            raise NotInlinable("recursive helper")
        fn = copy.deepcopy(callee.node)
        kwarg_name = None
        if fn.args.kwarg is not None and fn.args.vararg is None:
            # `**fields`: the keywords no parameter takes, gathered in a new dict -- which is what the display written at the call
            # site is (the call must spell its keywords out)
            kwarg_name = fn.args.kwarg.arg
            fn.args.kwarg = None
        prm = _params(fn)
        if prm is None:
            raise NotInlinable("*args/**kwargs")
        pos, kwo, defaults = prm
        if any(isinstance(a, ast.Starred) for a in call.args) or any(k.arg is None for k in call.keywords):
            raise NotInlinable("star arguments at the call site")
        if kwarg_name is not None:
            extra = [k for k in call.keywords if k.arg not in pos and k.arg not in kwo]
            if extra and any(k2.arg in pos or k2.arg in kwo for k2 in call.keywords[call.keywords.index(extra[0]):]):
                raise NotInlinable("keywords for **%s mixed with parameter keywords" % kwarg_name)   # keeps the evaluation order plain
            call = copy.copy(call)
            call.keywords = [k for k in call.keywords if k not in extra]
            gathered = ast.Dict(keys=[ast.Constant(value=k.arg) for k in extra], values=[k.value for k in extra])
            ast.copy_location(gathered, call)
            ast.fix_missing_locations(gathered)
        lock = None
        is_cm = False
        static = False
        for d in callee.decorators:
            if d == "staticmethod":
                static = True
            elif d == "classmethod":
                pass
            elif d in ("contextmanager", "contextlib.contextmanager"):
                is_cm = True
            else:
                lk = _lock_wrapper(self.repo, callee.module, d)
                if lk is None:
                    raise NotInlinable("decorator %s" % d)
                lock = lk
        if (mode == "with") != is_cm:
            raise NotInlinable("context manager / call form mismatch")
        if _has_yield(fn) and not is_cm:
            raise NotInlinable("generator")
        # bind
        binding: Dict[str, ast.AST] = {}
        params = list(pos)
        if isinstance(recv, tuple) and recv[0] == "closure":
            pass   # a local closure: every parameter is bound from the call
        elif callee.cls is not None and not static:
            if not params:
                raise NotInlinable("method without self")
            selfp = params.pop(0)
            if isinstance(recv, tuple):  # Class.m(...)
                if "classmethod" in callee.decorators:
                    binding[selfp] = recv[1]
                else:
                    if not call.args:
                        raise NotInlinable("unbound method call without receiver")
                    binding[selfp] = call.args[0]
                    call = copy.copy(call)
                    call.args = call.args[1:]
            elif recv is None:
                raise NotInlinable("method called without receiver")
            else:
                binding[selfp] = recv
        if len(call.args) > len(params):
            raise NotInlinable("too many positional arguments")
        for p, a in zip(params, call.args):
            binding[p] = a
        for k in call.keywords:
            if k.arg in binding or (k.arg not in params and k.arg not in kwo):
                raise NotInlinable("keyword %s" % k.arg)
            binding[k.arg] = k.value
        if kwarg_name is not None:
            binding[kwarg_name] = gathered
        for p in params + kwo:
            if p not in binding:
                if p not in defaults:
                    raise NotInlinable("missing argument %s" % p)
                if not _immutable_default(defaults[p]):
                    # a default that is not an immutable constant is ONE object shared by all calls: writing its expression
                    # out at the call site would make it a fresh object per call
                    raise NotInlinable("mutable default argument %s" % p)
                binding[p] = defaults[p]
        assigned = _assigned_names(fn)
        self.counter += 1
        tag = "__i%d" % self.counter
        sub: Dict[str, ast.AST] = {}
        ren: Dict[str, str] = {}
        pre: List[ast.stmt] = []
        # ---- in/out coalescing: `x, y = helper(x, y, ...)` where the helper returns its (updated) parameters,
        # and `x = helper(...)` where the helper returns one of its locals: the helper's variable IS the caller's
        # variable, so no copy-in / copy-out is generated and the inlined statements read like the code that
        # was extracted
        coalesced: List[Optional[str]] = []
        if mode == "assign" and target is not None:
            tnames = [target.id] if isinstance(target, ast.Name) else (
                [e.id for e in target.elts] if isinstance(target, ast.Tuple) and all(isinstance(e, ast.Name) for e in target.elts) else None)
            rets = [n for n in _walk_own(fn) if isinstance(n, ast.Return)]
            rnames = None
            if tnames and rets:
                shapes = set()
                for r_ in rets:
                    v_ = r_.value
                    if isinstance(v_, ast.Name):
                        shapes.add((v_.id,))
                    elif isinstance(v_, ast.Tuple) and all(isinstance(e, ast.Name) for e in v_.elts):
                        shapes.add(tuple(e.id for e in v_.elts))
                    else:
                        shapes.add(None)
                if len(shapes) == 1 and None not in shapes:
                    rnames = list(shapes.pop())
            if rnames and len(rnames) == len(tnames) and len(set(rnames)) == len(rnames) and _always_returns(fn.body):
                arg_names = {x.id for a_ in binding.values() for x in ast.walk(a_) if isinstance(x, ast.Name)}
                callee_names = _all_names(fn)
                for rn, tn in zip(rnames, tnames):
                    if rn in binding:
                        a_ = binding[rn]
                        if isinstance(a_, ast.Name) and a_.id == tn:
                            coalesced.append(rn)
                            continue
                    elif rn in assigned and tn not in arg_names and (tn not in callee_names or tn == rn):
                        coalesced.append(rn)
                        continue
                    coalesced.append(None)
                for rn, tn, co in zip(rnames, tnames, coalesced):
                    if co is not None:
                        ren[rn] = tn
            else:
                rnames = None
            self._coalesce = (rnames, coalesced) if rnames and any(c is not None for c in coalesced) else None
        else:
            self._coalesce = None
        for p, a in binding.items():
            if p in ren:
                continue  # coalesced with the caller's variable of the same role
            if p not in assigned and _is_pure_arg(a) and not (isinstance(a, ast.Name) and a.id in assigned):
                sub[p] = a
            else:
                nm = p if (p not in caller_names and p not in ren.values()) else p + tag
                ren[p] = nm
                st = ast.Assign(targets=[ast.Name(id=nm, ctx=ast.Store())], value=copy.deepcopy(a))
                pre.append(ast.copy_location(st, call))
        for loc in assigned:
            if loc in binding or loc in ren:
                continue
            if loc in caller_names:
                ren[loc] = loc + tag
        body = [s for s in fn.body]
        if body and isinstance(body[0], ast.Expr) and isinstance(body[0].value, ast.Constant) and isinstance(body[0].value.value, str):
            body = body[1:]
        tr = _Subst(ren, sub)
        body = [tr.visit(s) for s in body]
        if mode == "with":
            out = self._expand_cm(body, with_body, as_var, call)
        elif mode == "return":
            out = body
            if not _always_returns(body):
                out = body + [ast.copy_location(ast.Return(value=ast.Constant(value=None)), call)]
        else:
            co = self._coalesce

            def mk(value, at):
                if mode == "assign":
                    if co is not None:
                        rnames_, coal_ = co
                        if all(c is not None for c in coal_):
                            return []  # every returned variable already is the caller's variable
                        tg = [e for e, c in zip(target.elts, coal_) if c is None]
                        vs = [e for e, c in zip(value.elts, coal_) if c is None]
                        return [ast.copy_location(ast.Assign(targets=[copy.deepcopy(t_)], value=v_), at) for t_, v_ in zip(tg, vs)]
                    v = value if value is not None else ast.Constant(value=None)
                    return [ast.copy_location(ast.Assign(targets=[copy.deepcopy(target)], value=v), at)]
                if value is not None and any(isinstance(x, ast.Call) for x in ast.walk(value)):
                    return [ast.copy_location(ast.Expr(value=value), at)]
                return []
            falls = not _always_returns(body)
            try:
                out = _convert_returns(copy.deepcopy(body), mk)
            except NotInlinable:
                # returns that sit inside a try / with (not in a loop): the body goes into a one-trip loop and
                # every `return E` becomes `<target> = E; break` (a `finally` still runs, as it does for return)
                out = _wrap_returns(body, mk)
            if mode == "assign" and falls:
                init = ast.copy_location(ast.Assign(targets=[copy.deepcopy(target)], value=ast.Constant(value=None)), call)
                out = [init] + out
        if lock is not None:
            r = binding.get(selfp)
            w = ast.With(items=[ast.withitem(context_expr=ast.Attribute(value=copy.deepcopy(sub.get(selfp, ast.Name(id=ren.get(selfp, selfp), ctx=ast.Load()))),
                                                                         attr=lock, ctx=ast.Load()), optional_vars=None)],
                         body=out or [ast.Pass()])
            out = [ast.copy_location(w, call)]
            del r
        out = pre + out
        if not out:
            out = [ast.copy_location(ast.Pass(), call)]
        for s in out:
            ast.fix_missing_locations(s)
        # nested new helpers inside the inlined body
        if depth < MAX_DEPTH:
            holder = ast.Module(body=out, type_ignores=[])
            self.rewrite_block_owner(holder, callee, caller_names | _all_names(holder), depth + 1)
            out = holder.body
        return out

    def _expand_cm(self, body, with_body, as_var, call):
        """pre; yield v; post  /  pre; try: yield v finally|except ...: post"""
        def find(stmts):
            for i, s in enumerate(stmts):
                y = None
                if isinstance(s, ast.Expr) and isinstance(s.value, ast.Yield):
                    y = s.value
                elif isinstance(s, ast.Assign) and isinstance(s.value, ast.Yield):
                    raise NotInlinable("value sent into the generator is used")
                if y is not None:
                    return i, y
            return None
        n_y = sum(1 for s in body for x in [s] + list(_walk_own_stmt(s)) if isinstance(x, (ast.Yield, ast.YieldFrom)))
        if n_y != 1:
            raise NotInlinable("context manager with %d yields" % n_y)
        def bind(y):
            if as_var is None:
                return []
            v = y.value if y.value is not None else ast.Constant(value=None)
            return [ast.copy_location(ast.Assign(targets=[as_var], value=v), call)]
        hit = find(body)
        if hit is not None:
            i, y = hit
            return body[:i] + bind(y) + list(with_body) + body[i + 1:]
        for i, s in enumerate(body):
            if isinstance(s, ast.Try):
                h = find(s.body)
                if h is not None:
                    j, y = h
                    s.body = s.body[:j] + bind(y) + list(with_body) + s.body[j + 1:]
                    return body
            if isinstance(s, ast.With):
                h = find(s.body)
                if h is not None:
                    j, y = h
                    s.body = s.body[:j] + bind(y) + list(with_body) + s.body[j + 1:]
                    return body
        raise NotInlinable("yield is not at the top level of the context manager (or of its try / with)")

    # ---- statements ----------------------------------------------------------------------
    def rewrite_block_owner(self, owner, fi, names: Set[str], depth: int):
        """Rewrite every statement list under `owner` (not descending into nested defs)."""
        for fld in ("body", "orelse", "finalbody"):
            lst = getattr(owner, fld, None)
            if isinstance(lst, list) and lst and isinstance(lst[0], ast.stmt):
                setattr(owner, fld, self.rewrite_list(lst, fi, names, depth))
        for h in getattr(owner, "handlers", []) or []:
            h.body = self.rewrite_list(h.body, fi, names, depth)
        for c in getattr(owner, "cases", []) or []:
            c.body = self.rewrite_list(c.body, fi, names, depth)

    def rewrite_list(self, stmts, fi, names, depth):
        out = []
        for s in stmts:
            out.extend(self.rewrite_stmt(s, fi, names, depth))
        return out

    def _expand_cm_class(self, w: ast.With, fi, names, depth):
        """`with C(a, b) as v: BODY` for a class C that is new w.r.t. the inventory, has only __init__ (plain
        `self.f = <param>` stores), __enter__ and __exit__ (which never suppresses the exception):
             f__k = a ... ; <__enter__ body, its return value bound to v> ; try: BODY finally: <__exit__ body>"""
        call = w.items[0].context_expr
        if not isinstance(call.func, ast.Name):
            return None
        inv = load_inventory()
        known_c = set(inv.get("classes") or [])
        cls = None
        for c in self.repo.classes_named(call.func.id):
            if c.qual not in known_c and c.module is fi.module:
                cls = c
        if cls is None or not {"__enter__", "__exit__"} <= set(cls.methods) or set(cls.methods) - {"__init__", "__enter__", "__exit__"}:
            return None
        if any(k.arg is None for k in call.keywords) or any(isinstance(a, ast.Starred) for a in call.args):
            return None
        self.counter += 1
        tag = "__c%d" % self.counter
        fields = {}
        pre = []
        init = cls.methods.get("__init__")
        if init is not None:
            prm = _params(init.node)
            if prm is None:
                return None
            pos, kwo, defaults = prm
            pos = pos[1:]
            binding = dict(zip(pos, call.args))
            for k in call.keywords:
                binding[k.arg] = k.value
            for p_ in pos + kwo:
                if p_ not in binding:
                    if p_ not in defaults:
                        return None
                    binding[p_] = defaults[p_]
            for st in _strip_doc_local(init.node.body):
                if isinstance(st, ast.Assign) and len(st.targets) == 1 and isinstance(st.targets[0], ast.Attribute) \
                        and isinstance(st.targets[0].value, ast.Name) and st.targets[0].value.id == "self":
                    val = copy.deepcopy(st.value)
                    val = _Subst({}, {k: v for k, v in binding.items()}).visit(val)
                    loc = st.targets[0].attr.lstrip("_") + tag
                    fields[st.targets[0].attr] = loc
                    pre.append(ast.copy_location(ast.Assign(targets=[ast.Name(id=loc, ctx=ast.Store())], value=val), w))
                elif isinstance(st, ast.Pass):
                    continue
                else:
                    return None
        elif call.args or call.keywords:
            return None

        class F(ast.NodeTransformer):
            def visit_Attribute(self_, n):
                self_.generic_visit(n)
                if isinstance(n.value, ast.Name) and n.value.id == "self" and n.attr in fields:
                    return ast.copy_location(ast.Name(id=fields[n.attr], ctx=n.ctx), n)
                return n

        def body_of(m):
            b = [F().visit(copy.deepcopy(x)) for x in _strip_doc_local(m.node.body)]
            if any(isinstance(x, ast.Name) and x.id == "self" for y in b for x in ast.walk(y)):
                raise NotInlinable("context manager uses self beyond its constructor fields")
            return b
        try:
            enter = body_of(cls.methods["__enter__"])
            exit_ = body_of(cls.methods["__exit__"])
        except NotInlinable:
            return None
        # __exit__ must not suppress: no `return <truthy>`
        for x in exit_:
            for r in [x] + list(_walk_own_stmt(x)):
                if isinstance(r, ast.Return) and r.value is not None and not (isinstance(r.value, ast.Constant) and not r.value.value):
                    return None
        exit_ = [x for x in exit_ if not isinstance(x, ast.Return)]
        if any(isinstance(r, ast.Return) for x in exit_ for r in _walk_own_stmt(x)):
            return None
        as_var = w.items[0].optional_vars
        ent_out = []
        ret_val = None
        for x in enter:
            if isinstance(x, ast.Return):
                ret_val = x.value
                break
            if any(isinstance(r, ast.Return) for r in _walk_own_stmt(x)):
                return None
            ent_out.append(x)
        if as_var is not None:
            ent_out.append(ast.copy_location(ast.Assign(targets=[as_var], value=ret_val if ret_val is not None else ast.Constant(value=None)), w))
        tr = ast.Try(body=list(w.body), handlers=[], orelse=[], finalbody=exit_ or [ast.Pass()])
        ast.copy_location(tr, w)
        out = pre + ent_out + [tr]
        for x in out:
            ast.fix_missing_locations(x)
        self.cm_classes = getattr(self, "cm_classes", []) + [cls.qual]
        holder = ast.Module(body=out, type_ignores=[])
        if depth < MAX_DEPTH:
            self.rewrite_block_owner(holder, fi, names | _all_names(holder), depth + 1)
        return holder.body

    def _new_class_of(self, e, fi):
        """The new (w.r.t. the inventory) class of the module that expression `e` constructs (`C(...)`), or that the local
        `e` is bound to by its only binding in the host (`g = C(...)`)."""
        inv = load_inventory()
        known_c = set(inv.get("classes") or [])
        call = e if isinstance(e, ast.Call) else None
        if isinstance(e, ast.Name):
            top = fi
            while top.parent is not None:
                top = top.parent
            binds = [n for n in ast.walk(top.node) if isinstance(n, ast.Assign) and any(isinstance(t, ast.Name) and t.id == e.id for t in n.targets)]
            stores = [n for n in ast.walk(top.node) if isinstance(n, ast.Name) and n.id == e.id and isinstance(n.ctx, ast.Store)]
            if len(binds) == 1 and len(stores) == 1 and isinstance(binds[0].value, ast.Call):
                call = binds[0].value
        if call is None or not isinstance(call.func, ast.Name):
            return None
        for c in self.repo.classes_named(call.func.id):
            if c.qual not in known_c and c.module is fi.module:
                return c
        return None

    def _with_protocol(self, w: ast.With, fi, names, depth):
        """`with X [as v]: BODY`, X an instance of a new class with __enter__ and __exit__  ->
               [x__k = X]; v = x__k.__enter__()
               try: BODY
               except BaseException as e__k:
                   if not x__k.__exit__(type(e__k), e__k, e__k.__traceback__): raise
               else: x__k.__exit__(None, None, None)
        (the definition of the statement); the two method calls are then ordinary calls of new helpers."""
        ce = w.items[0].context_expr
        cls = self._new_class_of(ce, fi)
        if cls is None or not {"__enter__", "__exit__"} <= set(cls.methods):
            return None
        self.counter += 1
        k = self.counter
        pre = []
        if isinstance(ce, ast.Name):
            inst = ce.id
        else:
            inst = "cm__w%d" % k
            pre.append(ast.copy_location(ast.Assign(targets=[ast.Name(id=inst, ctx=ast.Store())], value=ce), w))

        def call(m, args):
            return ast.Call(func=ast.Attribute(value=ast.Name(id=inst, ctx=ast.Load()), attr=m, ctx=ast.Load()), args=args, keywords=[])
        ev = "exc__w%d" % k
        as_var = w.items[0].optional_vars
        ent = call("__enter__", [])
        enter_st = ast.Assign(targets=[as_var], value=ent) if as_var is not None else ast.Expr(value=ent)
        exc_args = [ast.Call(func=ast.Name(id="type", ctx=ast.Load()), args=[ast.Name(id=ev, ctx=ast.Load())], keywords=[]),
                    ast.Name(id=ev, ctx=ast.Load()),
                    ast.Attribute(value=ast.Name(id=ev, ctx=ast.Load()), attr="__traceback__", ctx=ast.Load())]
        handler = ast.ExceptHandler(type=ast.Name(id="BaseException", ctx=ast.Load()), name=ev,
                                    body=[ast.If(test=ast.UnaryOp(op=ast.Not(), operand=call("__exit__", exc_args)), body=[ast.Raise(exc=None, cause=None)], orelse=[])])
        none3 = [ast.Constant(value=None), ast.Constant(value=None), ast.Constant(value=None)]
        ex = cls.methods["__exit__"]
        ex_params = [a.arg for a in ex.node.args.args[1:]] + ([ex.node.args.vararg.arg] if ex.node.args.vararg else [])
        inner = [n for st in ex.node.body for n in _walk_same_scope(st)]
        never_suppresses = all(n.value is None or (isinstance(n.value, ast.Constant) and not n.value.value) for n in inner if isinstance(n, ast.Return))
        blind = not any(isinstance(n, ast.Name) and n.id in ex_params and isinstance(n.ctx, ast.Load) for n in inner)
        jumps = any(isinstance(n, (ast.Return, ast.Break, ast.Continue)) for st in w.body for n in _walk_same_scope(st))
        if never_suppresses and blind:
            # __exit__ neither looks at the exception nor suppresses it: it simply runs however BODY is left (also by return / break)
            tr = ast.Try(body=list(w.body), handlers=[], orelse=[], finalbody=[ast.Expr(value=call("__exit__", none3))])
            out = pre + [enter_st, tr]
        elif jumps:
            # BODY can be left by return / break / continue, which an `else` clause does not see: the full definition (PEP 343)
            flag = "left_normally__w%d" % k
            handler.body.insert(0, ast.Assign(targets=[ast.Name(id=flag, ctx=ast.Store())], value=ast.Constant(value=False)))
            inner_try = ast.Try(body=list(w.body), handlers=[handler], orelse=[], finalbody=[])
            tr = ast.Try(body=[inner_try], handlers=[], orelse=[],
                         finalbody=[ast.If(test=ast.Name(id=flag, ctx=ast.Load()), body=[ast.Expr(value=call("__exit__", none3))], orelse=[])])
            out = pre + [enter_st, ast.Assign(targets=[ast.Name(id=flag, ctx=ast.Store())], value=ast.Constant(value=True)), tr]
        else:
            tr = ast.Try(body=list(w.body), handlers=[handler], orelse=[ast.Expr(value=call("__exit__", none3))], finalbody=[])
            out = pre + [enter_st, tr]
        for x in out:
            ast.copy_location(x, w)
            ast.fix_missing_locations(x)
        self.cm_classes = getattr(self, "cm_classes", []) + [cls.qual]
        holder = ast.Module(body=out, type_ignores=[])
        if depth < MAX_DEPTH:
            self.rewrite_block_owner(holder, fi, names | _all_names(holder), depth + 1)
        return holder.body

    def _site(self, callee, ok, why=""):
        d = self.inlined_sites if ok else self.left_sites
        d[callee.qual] = d.get(callee.qual, 0) + 1
        if not ok:
            self.log.append("%s left as a call: %s" % (callee.qual, why))

    def rewrite_stmt(self, s, fi, names, depth):
        if isinstance(s, FUNC + (ast.ClassDef,)):
            return [s]
        # compound statements: recurse first
        if isinstance(s, (ast.If, ast.For, ast.AsyncFor, ast.While, ast.Try, ast.With, ast.AsyncWith)) or hasattr(s, "cases"):
            self.rewrite_block_owner(s, fi, names, depth)
        # for x in <new helper>(...):  the iterable is computed once, before the loop: through a temporary, so that the helper is
        # written out like any `t = helper(...)`
        if isinstance(s, ast.For) and isinstance(s.iter, ast.Call) and depth < MAX_DEPTH:
            r = self.resolve(s.iter, fi)
            if r is not None and not _has_yield(r[0].node):
                self.counter += 1
                nm = "iter__f%d" % self.counter
                asg = ast.copy_location(ast.Assign(targets=[ast.Name(id=nm, ctx=ast.Store())], value=s.iter), s)
                ast.fix_missing_locations(asg)
                pre = self.rewrite_stmt(asg, fi, names | {nm}, depth + 1)
                if not (len(pre) == 1 and pre[0] is asg):
                    s.iter = ast.copy_location(ast.Name(id=nm, ctx=ast.Load()), s.iter)
                    return pre + [s]
        # with <new context-manager CLASS>(...) as v:  ->  fields bound, __enter__ body, try: BODY finally: __exit__ body
        if isinstance(s, ast.With) and len(s.items) == 1 and isinstance(s.items[0].context_expr, ast.Call):
            out = self._expand_cm_class(s, fi, names, depth)
            if out is not None:
                return out
        # with <instance of a new class that has __enter__ / __exit__>: the protocol written out, so that the two methods
        # are inlined like any other new helper (also when __exit__ can suppress the exception)
        if isinstance(s, ast.With) and len(s.items) == 1:
            out = self._with_protocol(s, fi, names, depth)
            if out is not None:
                return out
        # with <new context manager>(...) as v:
        if isinstance(s, ast.With) and len(s.items) == 1 and isinstance(s.items[0].context_expr, ast.Call):
            r = self.resolve(s.items[0].context_expr, fi)
            if r is not None:
                try:
                    out = self.expand(s.items[0].context_expr, r[0], r[1], "with", None, names, depth, with_body=s.body, as_var=s.items[0].optional_vars)
                    self._site(r[0], True)
                    return out
                except NotInlinable as e:
                    self._site(r[0], False, str(e))
            return [s]
        # whole-statement forms
        if isinstance(s, ast.Expr) and isinstance(s.value, ast.Call):
            r = self.resolve(s.value, fi)
            if r is not None:
                try:
                    out = self.expand(s.value, r[0], r[1], "drop", None, names, depth)
                    self._site(r[0], True)
                    return out
                except NotInlinable as e:
                    self._site(r[0], False, str(e))
                    return [s]
        if isinstance(s, ast.Return) and isinstance(s.value, ast.Call):
            r = self.resolve(s.value, fi)
            if r is not None:
                try:
                    out = self.expand(s.value, r[0], r[1], "return", None, names, depth)
                    self._site(r[0], True)
                    return out
                except NotInlinable as e:
                    self._site(r[0], False, str(e))
                    return [s]
        if isinstance(s, (ast.Assign, ast.AnnAssign)) and isinstance(s.value, ast.Call):
            tg = s.targets if isinstance(s, ast.Assign) else [s.target]
            if len(tg) == 1:
                r = self.resolve(s.value, fi)
                if r is not None:
                    try:
                        out = self.expand(s.value, r[0], r[1], "assign", tg[0], names, depth)
                        self._site(r[0], True)
                        return out
                    except NotInlinable as e:
                        self._site(r[0], False, str(e))
                        return [s]
        # `x = A if c else helper(...)` / `return helper(...) if c else B`: written out as an if statement so that the
        # conditionally evaluated helper call becomes a whole statement value and can be inlined
        if isinstance(s, (ast.Assign, ast.Return)) and isinstance(getattr(s, "value", None), ast.IfExp):
            ie = s.value
            has_new = any(self.resolve(c, fi) is not None for br in (ie.body, ie.orelse) for c in ast.walk(br) if isinstance(c, ast.Call))
            if has_new and (isinstance(s, ast.Return) or len(s.targets) == 1):
                def mk(v):
                    if isinstance(s, ast.Return):
                        return ast.copy_location(ast.Return(value=v), s)
                    return ast.copy_location(ast.Assign(targets=[copy.deepcopy(s.targets[0])], value=v), s)
                new_if = ast.copy_location(ast.If(test=ie.test, body=[mk(ie.body)], orelse=[mk(ie.orelse)]), s)
                return self.rewrite_stmt(new_if, fi, names, depth)
        # `if a and helper(...): S` (no else): the helper is only evaluated when `a` holds — write the nesting out so
        # that the call can be hoisted inside it
        if isinstance(s, ast.If) and not s.orelse and isinstance(s.test, ast.BoolOp) and isinstance(s.test.op, ast.And) and len(s.test.values) >= 2:
            later = s.test.values[1:]
            if any(self.resolve(c, fi) is not None for v in later for c in ast.walk(v) if isinstance(c, ast.Call)):
                first = s.test.values[0]
                rest = later[0] if len(later) == 1 else ast.copy_location(ast.BoolOp(op=ast.And(), values=later), s.test)
                inner = ast.copy_location(ast.If(test=rest, body=s.body, orelse=[]), s)
                outer = ast.copy_location(ast.If(test=first, body=self.rewrite_stmt(inner, fi, names, depth), orelse=[]), s)
                return [outer]
        # a call nested in a simple statement / an if test: hoist it
        holder = None
        if isinstance(s, (ast.Expr, ast.Assign, ast.AnnAssign, ast.AugAssign, ast.Return)) and getattr(s, "value", None) is not None:
            holder = ("value", s.value)
        elif isinstance(s, ast.If):
            holder = ("test", s.test)
        if holder is not None:
            for c in _unconditional_calls(holder[1]):
                r = self.resolve(c, fi)
                if r is None:
                    continue
                self.counter += 1
                tmp = "%s_result__h%d" % (r[0].name.lstrip("_"), self.counter)
                try:
                    pre = self.expand(c, r[0], r[1], "assign", ast.Name(id=tmp, ctx=ast.Store()), names | {tmp}, depth)
                except NotInlinable as e:
                    self._site(r[0], False, str(e))
                    continue
                self._site(r[0], True)
                _replace_node(s, c, ast.copy_location(ast.Name(id=tmp, ctx=ast.Load()), c))
                return pre + self.rewrite_stmt(s, fi, names | {tmp}, depth)
        return [s]


def _strip_doc_local(body):
    if body and isinstance(body[0], ast.Expr) and isinstance(body[0].value, ast.Constant) and isinstance(body[0].value.value, str):
        return body[1:]
    return body


def _dotted(e) -> Optional[str]:
    if isinstance(e, ast.Name):
        return e.id
    if isinstance(e, ast.Attribute):
        b = _dotted(e.value)
        return b + "." + e.attr if b else None
    return None


def _unconditional_calls(expr) -> List[ast.Call]:
    """Calls that are evaluated whenever `expr` is, outermost-first order of evaluation not
    guaranteed: callers hoist one at a time and only the first in source order."""
    out = []

    def rec(n, cond):
        if isinstance(n, (ast.Lambda, ast.ListComp, ast.SetComp, ast.DictComp, ast.GeneratorExp)):
            return
        if isinstance(n, ast.BoolOp):
            rec(n.values[0], cond)
            for v in n.values[1:]:
                rec(v, True)
            return
        if isinstance(n, ast.IfExp):
            rec(n.test, cond)
            rec(n.body, True)
            rec(n.orelse, True)
            return
        for ch in ast.iter_child_nodes(n):
            rec(ch, cond)
        if isinstance(n, ast.Call) and not cond:
            out.append(n)

    rec(expr, False)
    out.sort(key=lambda c: (getattr(c, "lineno", 0), getattr(c, "col_offset", 0)))
    return out


def _replace_node(root, old, new):
    for n in ast.walk(root):
        for fld, val in ast.iter_fields(n):
            if val is old:
                setattr(n, fld, new)
                return True
            if isinstance(val, list):
                for i, x in enumerate(val):
                    if x is old:
                        val[i] = new
                        return True
    return False


_BUILTIN_TYPES = ("bool", "str", "int", "float", "bytes", "list", "dict", "tuple", "set", "frozenset", "complex", "bytearray")


def _literal(v) -> bool:
    if isinstance(v, ast.Constant):
        return isinstance(v.value, (str, int, float, bytes, bool)) or v.value is None
    if isinstance(v, ast.Tuple):
        return all(_literal(e) for e in v.elts)
    if isinstance(v, ast.Name):
        return v.id in _BUILTIN_TYPES     # (a tuple of classes for isinstance)
    if isinstance(v, ast.UnaryOp) and isinstance(v.op, ast.USub):
        return _literal(v.operand)
    return False


def inline_new_constants(repo) -> Dict[str, str]:
    """A literal that a change moved into a new module-level (or class-level) constant is put back where it
    is used: `_LINK_SUFFIX = ".link"` ... `name + _LINK_SUFFIX`  ==>  `name + ".link"`.  Only names that are
    new w.r.t. the inventory, bound exactly once to a literal and never re-bound are substituted."""
    inv = load_inventory()
    if inv.get("tables") is None:
        return {}
    known = set(inv["tables"])
    done: Dict[str, str] = {}
    for m in repo.modules.values():
        consts = {}
        for name, v in m.assigns.items():
            if "%s:%s" % (m.name, name) in known or not _literal(v):
                continue
            n_bind = sum(1 for n in ast.walk(m.tree) if isinstance(n, ast.Name) and n.id == name and isinstance(n.ctx, (ast.Store, ast.Del)))
            if n_bind != 1 or any(isinstance(n, ast.Global) and name in n.names for n in ast.walk(m.tree)):
                continue
            consts[name] = v
        cls_consts = {}
        for c in m.all_classes():
            for st in c.node.body:
                if isinstance(st, (ast.Assign, ast.AnnAssign)) and getattr(st, "value", None) is not None and _literal(st.value):
                    tg = st.targets if isinstance(st, ast.Assign) else [st.target]
                    for t in tg:
                        if isinstance(t, ast.Name) and "%s:%s" % (c.qual, t.id) not in known:
                            # never stored through self / cls / the class anywhere
                            stored = any(isinstance(n, ast.Attribute) and n.attr == t.id and isinstance(n.ctx, (ast.Store, ast.Del)) for n in ast.walk(m.tree))
                            if not stored:
                                cls_consts[t.id] = st.value
        if not consts and not cls_consts:
            continue

        class T(ast.NodeTransformer):
            def visit_Name(self, n):
                if isinstance(n.ctx, ast.Load) and n.id in consts:
                    return ast.copy_location(copy.deepcopy(consts[n.id]), n)
                return n

            def visit_Attribute(self, n):
                self.generic_visit(n)
                if isinstance(n.ctx, ast.Load) and n.attr in cls_consts and isinstance(n.value, ast.Name):
                    return ast.copy_location(copy.deepcopy(cls_consts[n.attr]), n)
                return n

        targets = [m] + [o for o in repo.modules.values() if o is not m and any(
            (o.imports.get(k, "").endswith(":" + k) and o.imports.get(k, "").split(":")[0].lstrip(".").split(".")[-1] == m.name) for k in consts)]
        for o in targets:
            for fi in o.all_funcs():
                if fi.parent is None:
                    fi.node.body = [T().visit(s_) for s_ in fi.node.body]
                    ast.fix_missing_locations(fi.node)
        for k in list(consts) + list(cls_consts):
            done["%s:%s" % (m.name, k)] = ast.unparse(consts.get(k) or cls_consts.get(k))
    return done


def flatten(repo) -> Optional[Inliner]:
    """Inline the new helpers of `repo` (in place).  Returns the Inliner (for evidence) or None."""
    repo.inlined_constants = inline_new_constants(repo)
    inl = Inliner(repo)
    new_closures = [fi for fi in repo.all_funcs() if fi.parent is not None and fi.qual not in inl.known]
    if not inl.new and not new_closures:
        if repo.inlined_constants:
            for m_ in repo.modules.values():
                m_.reindex()
            repo.refresh_class_index()
        return None
    changed_modules = set()
    for fi in list(repo.all_funcs()):
        if fi.parent is not None:
            continue
        before = ast.dump(fi.node)
        names = _all_names(fi.node)
        inl.rewrite_block_owner(fi.node, fi, names, 0)
        if ast.dump(fi.node) != before:
            ast.fix_missing_locations(fi.node)
            changed_modules.add(fi.module.name)
    # a NEW read-only property of a class (one `return <expr>`), read through self in the methods of that class: the expression
    if _expand_self_properties(inl, repo, changed_modules):
        pass
    # instances of new classes that never leave the function: their fields become locals
    for fi in list(repo.all_funcs()):
        if fi.parent is not None:
            continue
        if _expand_properties(inl, fi):
            ast.fix_missing_locations(fi.node)
            changed_modules.add(fi.module.name)
        if _scalar_replace(inl, fi):
            ast.fix_missing_locations(fi.node)
            changed_modules.add(fi.module.name)
    # helpers whose every call site was inlined disappear from the tables
    dropped = []
    for fi in inl.new:
        if inl.inlined_sites.get(fi.qual) and not inl.left_sites.get(fi.qual) and not _referenced_otherwise(repo, fi) and not _still_called(repo, fi):
            owner = fi.cls.node if fi.cls is not None else fi.module.tree
            if fi.node in owner.body:
                owner.body.remove(fi.node)
                if not owner.body:
                    owner.body.append(ast.Pass())
                dropped.append(fi.qual)
                changed_modules.add(fi.module.name)
    # local closures whose every call was written out are no longer defined in their host
    for sub in new_closures:
        if inl.inlined_sites.get(sub.qual) and not inl.left_sites.get(sub.qual):
            top = sub
            while top.parent is not None:
                top = top.parent
            still_called = any(isinstance(c, ast.Call) and isinstance(c.func, ast.Name) and c.func.id == sub.name for c in ast.walk(top.node)
                               if c is not sub.node)
            if still_called:
                continue
            for holder in ast.walk(top.node):
                for fld in ("body", "orelse", "finalbody"):
                    blk = getattr(holder, fld, None)
                    if isinstance(blk, list) and sub.node in blk:
                        blk.remove(sub.node)
                        if not blk:
                            blk.append(ast.copy_location(ast.Pass(), sub.node))
                        dropped.append(sub.qual)
                        changed_modules.add(top.module.name)
    inl.dropped = dropped
    for name in changed_modules:
        repo.modules[name].reindex()
    repo.refresh_class_index()
    return inl


def _is_property(fn_node) -> bool:
    return any((isinstance(d, ast.Name) and d.id in ("property", "cached_property")) or (isinstance(d, ast.Attribute) and d.attr in ("cached_property",))
               for d in getattr(fn_node, "decorator_list", []))


def _expand_self_properties(inl, repo, changed_modules) -> bool:
    """`self.p` in the methods of class C (and of subclasses that do not define p), p a property of C that is new w.r.t. the
    inventory, read-only, and whose body is one `return <expr>` without calls: the expression with the property's self := the
    method's self.  (A property is evaluated at every read; an expression without calls gives the same value written in place.)"""
    changed = False
    new_quals = {f.qual for f in inl.new}
    for m in repo.modules.values():
        for c in m.all_classes():
            props = {}
            for name, meth in c.methods.items():
                if meth.qual not in new_quals or len(meth.node.decorator_list) != 1:
                    continue
                d = meth.node.decorator_list[0]
                if not (isinstance(d, ast.Name) and d.id == "property") or len(meth.node.args.args) != 1:
                    continue
                body = _strip_doc_local(meth.node.body)
                if len(body) != 1 or not isinstance(body[0], ast.Return) or body[0].value is None:
                    continue
                if any(isinstance(x, (ast.Call, ast.Lambda, ast.ListComp, ast.SetComp, ast.DictComp, ast.GeneratorExp, ast.NamedExpr, ast.Await, ast.Yield))
                       for x in ast.walk(body[0].value)):
                    continue
                if any(isinstance(dd, ast.Attribute) and isinstance(dd.value, ast.Name) and dd.value.id == name
                       for o in c.node.body if isinstance(o, FUNC) for dd in o.decorator_list):
                    continue   # has a setter / deleter
                props[name] = (body[0].value, meth.node.args.args[0].arg)
            if not props:
                continue
            hosts = [c] + [sc for sc in repo.subclasses(c) if not any(p_ in sc.methods for p_ in props)]
            for hc in hosts:
                for hm in hc.methods.values():
                    if hm.name in props or not hm.node.args.args:
                        continue
                    if any(isinstance(dd, ast.Name) and dd.id in ("staticmethod", "classmethod") for dd in hm.node.decorator_list):
                        continue
                    selfname = hm.node.args.args[0].arg

                    class P(ast.NodeTransformer):
                        hit = False

                        def visit_Attribute(self_, a):
                            self_.generic_visit(a)
                            if isinstance(a.ctx, ast.Load) and isinstance(a.value, ast.Name) and a.value.id == selfname and a.attr in props:
                                (e, ps) = props[a.attr]
                                P.hit = True
                                return ast.copy_location(_Subst({}, {ps: ast.Name(id=selfname, ctx=ast.Load())}).visit(copy.deepcopy(e)), a)
                            return a
                    for _round in range(3):
                        P.hit = False
                        hm.node.body = [P().visit(st) for st in hm.node.body]
                        if not P.hit:
                            break
                        changed = True
                        changed_modules.add(hc.module.name if hasattr(hc, "module") else m.name)
                        ast.fix_missing_locations(hm.node)
            if changed:
                inl.log.append("%s: new properties %s read through self written out" % (c.qual, sorted(props)))
    return changed


def _expand_properties(inl, fi) -> bool:
    """`g = C(...)` (the only binding of g, C a new class): a read of `g.p`, p a read-only property of C whose body is one
    `return <expr>`, is that expression with self := g -- evaluated at every read, as the property is."""
    fn = fi.node
    changed = False
    for _round in range(4):
        again = False
        names = {n.id for n in ast.walk(fn) if isinstance(n, ast.Name) and isinstance(n.ctx, ast.Store)}
        for name in sorted(names):
            cls = inl._new_class_of(ast.Name(id=name, ctx=ast.Load()), fi)
            if cls is None:
                continue
            props = {}
            for mname, m in cls.methods.items():
                if not any(isinstance(d, ast.Name) and d.id == "property" for d in m.node.decorator_list) or len(m.node.decorator_list) != 1:
                    continue
                body = _strip_doc_local(m.node.body)
                if len(body) == 1 and isinstance(body[0], ast.Return) and body[0].value is not None and len(m.node.args.args) == 1 \
                        and not any(isinstance(x, (ast.Lambda, ast.ListComp, ast.SetComp, ast.DictComp, ast.GeneratorExp, ast.NamedExpr, ast.Await, ast.Yield))
                                    for x in ast.walk(body[0].value)):
                    # no setter / deleter of that name
                    if not any(isinstance(d, ast.Attribute) and isinstance(d.value, ast.Name) and d.value.id == mname
                               for o in cls.node.body if isinstance(o, FUNC) for d in o.decorator_list):
                        props[mname] = (body[0].value, m.node.args.args[0].arg)
            if not props:
                continue

            class P(ast.NodeTransformer):
                hit = False

                def visit_Attribute(self_, a):
                    self_.generic_visit(a)
                    if isinstance(a.ctx, ast.Load) and isinstance(a.value, ast.Name) and a.value.id == name and a.attr in props:
                        (e, selfname) = props[a.attr]
                        P.hit = True
                        return ast.copy_location(_Subst({}, {selfname: ast.Name(id=name, ctx=ast.Load())}).visit(copy.deepcopy(e)), a)
                    return a
            P().visit(fn)
            if P.hit:
                again = changed = True
                inl.log.append("%s: properties of %s read through `%s` written out" % (fi.qual, cls.qual, name))
        if not again:
            break
    return changed


def _dataclass_fields(cls):
    """[(field, default expression or None)] of a plain @dataclass without __init__ / __post_init__, in declaration order; None when
    the class is not one or a field's default cannot be written as an expression."""
    decs = cls.node.decorator_list
    if len(decs) != 1:
        return None
    d = decs[0]
    if isinstance(d, ast.Call):
        if any(k.arg in ("init", "slots", "frozen", "kw_only") for k in d.keywords):
            return None
        d = d.func
    if not ((isinstance(d, ast.Name) and d.id == "dataclass") or (isinstance(d, ast.Attribute) and d.attr == "dataclass")):
        return None
    if "__init__" in cls.methods or "__post_init__" in cls.methods or "__setattr__" in cls.methods or cls.base_exprs:
        return None
    out = []
    for st in cls.node.body:
        if isinstance(st, ast.AnnAssign) and isinstance(st.target, ast.Name):
            if "ClassVar" in ast.unparse(st.annotation) or "InitVar" in ast.unparse(st.annotation):
                return None
            v = st.value
            if isinstance(v, ast.Call) and ((isinstance(v.func, ast.Name) and v.func.id == "field") or (isinstance(v.func, ast.Attribute) and v.func.attr == "field")):
                kw = {k.arg: k.value for k in v.keywords}
                if kw.get("init") is not None:
                    return None
                if "default" in kw:
                    v = kw["default"]
                elif "default_factory" in kw and isinstance(kw["default_factory"], ast.Name) and kw["default_factory"].id in ("list", "dict", "set"):
                    v = ast.Call(func=ast.Name(id=kw["default_factory"].id, ctx=ast.Load()), args=[], keywords=[])
                elif "default_factory" in kw:
                    return None
                else:
                    v = None
            elif v is not None and not _immutable_default(v):
                return None
            out.append((st.target.id, v))
        elif isinstance(st, ast.Assign):
            return None
    return out


def _scalar_replace(inl, fi) -> bool:
    """`g = C(a, b)` with C a class that is new w.r.t. the inventory, whose __init__ only stores its fields, and g used in
    this function only as `g.<field>` (read or written; every method call on it was written out already): the object never
    leaves the function, so each field is a local - `g.f` becomes `f__oK`, the construction becomes the field
    initialisations (class-level constants first, then the __init__ stores with the arguments bound)."""
    changed = False
    fn = fi.node
    binds = {}
    for n in ast.walk(fn):
        if isinstance(n, ast.Assign) and len(n.targets) == 1 and isinstance(n.targets[0], ast.Name) and isinstance(n.value, ast.Call):
            binds.setdefault(n.targets[0].id, []).append(n)
    for name, bs in binds.items():
        if len(bs) != 1:
            continue
        cls = inl._new_class_of(bs[0].value, fi)
        if cls is None:
            continue
        call = bs[0].value
        stores = [x for x in ast.walk(fn) if isinstance(x, ast.Name) and x.id == name and isinstance(x.ctx, (ast.Store, ast.Del))]
        if len(stores) != 1:
            continue
        # fields: class-level constant attributes and the plain stores of __init__
        fields = {}
        for st in cls.node.body:
            if isinstance(st, (ast.Assign, ast.AnnAssign)) and getattr(st, "value", None) is not None and isinstance(st.value, ast.Constant):
                for t in (st.targets if isinstance(st, ast.Assign) else [st.target]):
                    if isinstance(t, ast.Name):
                        fields[t.id] = st.value
        init = cls.methods.get("__init__")
        inits = []
        ok = True
        dcf = _dataclass_fields(cls) if init is None else None
        if dcf is not None:
            if any(isinstance(a, ast.Starred) for a in call.args) or any(k.arg is None for k in call.keywords) or len(call.args) > len(dcf):
                continue
            binding = dict(zip([f for (f, _d) in dcf], call.args))
            for k in call.keywords:
                binding[k.arg] = k.value
            if not set(binding) <= {f for (f, _d) in dcf} or not all(_is_pure_arg(a) for a in binding.values()):
                continue
            fields = {}
            for (f, dflt) in dcf:
                if f in binding:
                    inits.append((f, copy.deepcopy(binding[f])))
                elif dflt is not None:
                    inits.append((f, copy.deepcopy(dflt)))
                else:
                    ok = False
            if not ok:
                continue
        elif init is not None:
            prm = _params(init.node)
            if prm is None or any(isinstance(a, ast.Starred) for a in call.args) or any(k.arg is None for k in call.keywords):
                continue
            pos, kwo, defaults = prm
            pos = pos[1:]
            if len(call.args) > len(pos):
                continue
            binding = dict(zip(pos, call.args))
            for k in call.keywords:
                binding[k.arg] = k.value
            for p_ in pos + kwo:
                if p_ not in binding:
                    if p_ not in defaults or not _immutable_default(defaults[p_]):
                        ok = False
                        break
                    binding[p_] = defaults[p_]
            if not ok or not all(_is_pure_arg(a) for a in binding.values()):
                continue
            for st in _strip_doc_local(init.node.body):
                if isinstance(st, ast.Assign) and len(st.targets) == 1 and isinstance(st.targets[0], ast.Attribute) \
                        and isinstance(st.targets[0].value, ast.Name) and st.targets[0].value.id == "self":
                    inits.append((st.targets[0].attr, _Subst({}, dict(binding)).visit(copy.deepcopy(st.value))))
                elif isinstance(st, (ast.Pass,)) or (isinstance(st, ast.Expr) and isinstance(st.value, ast.Call) and ast.unparse(st.value).startswith("super().__init__")):
                    continue
                else:
                    ok = False
                    break
            if not ok or any(isinstance(x, ast.Name) and x.id == "self" for (_f, v) in inits for x in ast.walk(v)):
                continue
        elif call.args or call.keywords:
            continue
        all_fields = set(fields) | {f for (f, _v) in inits}
        # every other mention of the name is `name.<field>` and no method of the class is called on it any more
        uses = [x for x in ast.walk(fn) if isinstance(x, ast.Name) and x.id == name and isinstance(x.ctx, ast.Load)]
        attr_of = {id(a.value): a for a in ast.walk(fn) if isinstance(a, ast.Attribute) and isinstance(a.value, ast.Name) and a.value.id == name}
        if not uses or not all(id(u) in attr_of and attr_of[id(u)].attr in all_fields and attr_of[id(u)].attr not in cls.methods for u in uses):
            continue
        # a nested function that reads the instance would capture it: leave such objects alone
        if any(isinstance(x, ast.Name) and x.id == name for n_ in ast.walk(fn) if isinstance(n_, FUNC + (ast.Lambda,)) and n_ is not fn for x in ast.walk(n_)):
            continue
        inl.counter += 1
        tag = "__o%d" % inl.counter
        loc = {f: f.lstrip("_") + tag for f in all_fields}

        class R(ast.NodeTransformer):
            def visit_Attribute(self_, a):
                self_.generic_visit(a)
                if isinstance(a.value, ast.Name) and a.value.id == name and a.attr in loc:
                    return ast.copy_location(ast.Name(id=loc[a.attr], ctx=a.ctx), a)
                return a
        R().visit(fn)
        new_stmts = [ast.copy_location(ast.Assign(targets=[ast.Name(id=loc[f], ctx=ast.Store())], value=copy.deepcopy(v)), bs[0]) for f, v in fields.items()]
        new_stmts += [ast.copy_location(ast.Assign(targets=[ast.Name(id=loc[f], ctx=ast.Store())], value=v), bs[0]) for (f, v) in inits]
        for holder in ast.walk(fn):
            for fld in ("body", "orelse", "finalbody"):
                blk = getattr(holder, fld, None)
                if isinstance(blk, list) and bs[0] in blk:
                    i = blk.index(bs[0])
                    blk[i:i + 1] = new_stmts or [ast.copy_location(ast.Pass(), bs[0])]
        inl.log.append("%s: instance `%s` of %s replaced by its fields" % (fi.qual, name, cls.qual))
        changed = True
    return changed


def _still_called(repo, fi) -> bool:
    """Is there a call of the helper left that the inliner could not write out (inside a comprehension, a lambda, a
    default value, a decorator ...)?  Such a helper stays defined."""
    for m in repo.modules.values():
        for c in ast.walk(m.tree):
            if isinstance(c, ast.Call):
                f = c.func
                nm = f.attr if isinstance(f, ast.Attribute) else (f.id if isinstance(f, ast.Name) else None)
                if nm == fi.name and not any(c is x for x in ast.walk(fi.node)):
                    return True
    return False


def _referenced_otherwise(repo, fi) -> bool:
    """Is the helper mentioned other than as the callee of a call (passed around, decorated use)?"""
    for m in repo.modules.values():
        for n in ast.walk(m.tree):
            if isinstance(n, ast.Call):
                continue
        calls_funcs = {id(c.func) for c in ast.walk(m.tree) if isinstance(c, ast.Call)}
        for n in ast.walk(m.tree):
            if isinstance(n, ast.Attribute) and n.attr == fi.name and id(n) not in calls_funcs:
                return True
            if isinstance(n, ast.Name) and n.id == fi.name and isinstance(n.ctx, ast.Load) and id(n) not in calls_funcs and fi.cls is None:
                return True
    return False
