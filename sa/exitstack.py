"""`with ExitStack() as s:` written out as the nested `with` / `try ... finally` statements it stands for.

    with ExitStack() as s:                    A
        A                                     with CM as v:
        v = s.enter_context(CM)        ->         B
        B                                         try:
        s.callback(f, a, b)                           C
        C                                         finally:
                                                      f(a, b)

Exit callbacks run in reverse order of registration when the block is left, however it is left, which is what the nesting
says.  Only the plain shape is rewritten: every mention of the stack is a statement of the block itself (not inside a
branch, a loop or a nested function) of one of the two forms above; anything else (pop_all, close, push, a stack that is
passed on, registration under a condition) leaves the statement as it is.
"""
import ast
import copy


def _is_exitstack(e) -> bool:
    if not isinstance(e, ast.Call) or e.args or e.keywords:
        return False
    f = e.func
    return (isinstance(f, ast.Name) and f.id == "ExitStack") or (isinstance(f, ast.Attribute) and f.attr == "ExitStack" and isinstance(f.value, ast.Name) and f.value.id == "contextlib")


def _stack_call(st, name):
    """('enter', cm, as_var) / ('callback', f, args, keywords) for a statement of the two forms, else None"""
    v = st.value if isinstance(st, (ast.Expr, ast.Assign)) else None
    if not (isinstance(v, ast.Call) and isinstance(v.func, ast.Attribute) and isinstance(v.func.value, ast.Name) and v.func.value.id == name):
        return None
    if v.func.attr == "enter_context" and len(v.args) == 1 and not v.keywords:
        if isinstance(st, ast.Expr):
            return ("enter", v.args[0], None)
        if len(st.targets) == 1 and isinstance(st.targets[0], ast.Name):
            return ("enter", v.args[0], st.targets[0])
        return None
    if v.func.attr == "callback" and isinstance(st, ast.Expr) and v.args and not any(isinstance(a, ast.Starred) for a in v.args) \
            and not any(k.arg is None for k in v.keywords):
        return ("callback", v.args[0], v.args[1:], v.keywords)
    return None


def _rewrite_with(w):
    if not (isinstance(w, ast.With) and len(w.items) == 1 and _is_exitstack(w.items[0].context_expr)):
        return None
    var = w.items[0].optional_vars
    if var is None:
        return list(w.body)
    if not isinstance(var, ast.Name):
        return None
    name = var.id
    regs = {}
    for i, st in enumerate(w.body):
        r = _stack_call(st, name)
        if r is not None:
            regs[i] = r
    mentions = sum(1 for st in w.body for n in ast.walk(st) if isinstance(n, ast.Name) and n.id == name)
    if mentions != len(regs):
        return None
    # the callable of a callback and its arguments are evaluated at registration; written into the finally clause they are
    # evaluated when the block is left: only names / attribute chains / constants, none of them re-bound later in the block
    out = []
    tail = list(w.body)
    pieces = []
    last = 0
    for i in sorted(regs):
        pieces.append((tail[last:i], regs[i], tail[i]))
        last = i + 1
    rest = tail[last:]
    for (before, r, at) in reversed(pieces):
        if r[0] == "enter":
            inner = ast.With(items=[ast.withitem(context_expr=r[1], optional_vars=(ast.Name(id=r[2].id, ctx=ast.Store()) if r[2] is not None else None))],
                             body=rest or [ast.Pass()])
        else:
            exprs = [r[1]] + list(r[2]) + [k.value for k in r[3]]
            if not all(_stable(e) for e in exprs):
                return None
            bound_later = {n.id for st in rest for n in ast.walk(st) if isinstance(n, ast.Name) and isinstance(n.ctx, (ast.Store, ast.Del))}
            if any(isinstance(n, ast.Name) and n.id in bound_later for e in exprs for n in ast.walk(e)):
                return None
            call = ast.Expr(value=ast.Call(func=copy.deepcopy(r[1]), args=[copy.deepcopy(a) for a in r[2]], keywords=[copy.deepcopy(k) for k in r[3]]))
            inner = ast.Try(body=rest or [ast.Pass()], handlers=[], orelse=[], finalbody=[call])
        ast.copy_location(inner, at)
        rest = list(before) + [inner]
    for x in rest:
        ast.fix_missing_locations(x)
    return rest


def _stable(e) -> bool:
    if isinstance(e, ast.Constant):
        return True
    if isinstance(e, ast.Name):
        return True
    if isinstance(e, ast.Attribute):
        return _stable(e.value)
    return False


def _walk_blocks(node):
    changed = False
    for fld in ("body", "orelse", "finalbody"):
        blk = getattr(node, fld, None)
        if not isinstance(blk, list):
            continue
        i = 0
        while i < len(blk):
            st = blk[i]
            if isinstance(st, ast.stmt):
                changed |= _walk_blocks(st)
                rep = _rewrite_with(st)
                if rep is not None:
                    blk[i:i + 1] = rep or [ast.copy_location(ast.Pass(), st)]
                    changed = True
                    continue
            i += 1
    for h in getattr(node, "handlers", []) or []:
        changed |= _walk_blocks(h)
    for c in getattr(node, "cases", []) or []:
        changed |= _walk_blocks(c)
    return changed


def desugar(repo):
    done = []
    for m in repo.modules.values():
        if "ExitStack" not in m.source:
            continue
        if _walk_blocks(m.tree):
            m.reindex()
            done.append(m.name)
    if done:
        repo.refresh_class_index()
    return done
