#!/usr/bin/env python3
"""Development-time robustness sweep: apply behaviour-preserving rewrites to an in-memory
overlay of every module and require that no check changes its verdict.

  rename  : every local variable (assigned in the function, not a parameter / global) of every
            function is renamed consistently (x -> x_rn), nested scopes included
  hoist   : `return E` -> `ret_N = E; return ret_N`; plain `if T:` -> `cond_N = T; if cond_N:`
            (hoist-ret / hoist-if apply one of the two)
  pass    : a `pass` statement at the start of every block
  methods : the plain methods of every class in reverse order
  negate  : `if T: A else: B` -> `if not T: B else: A`
  reflow  : the module is re-emitted by ast.unparse (all formatting, comments and line numbers
            change; `# type:` comments are re-attached by unparse for assignments)

Usage: tools/benign_sweep.py [rename|reflow] [module ...]
"""
import ast
import os
import sys

sys.path.insert(0, os.path.dirname(os.path.dirname(os.path.abspath(__file__))))
from sa.loader import Repo, PKG_DIR, AnalysisError  # noqa: E402
from sa.check import run_property  # noqa: E402
from sa.report import split_known, stable_key  # noqa: E402

PROPS = ["C%02d" % i for i in range(1, 20)]


class Renamer(ast.NodeTransformer):
    def __init__(self, names):
        self.names = names

    def visit_Name(self, node):
        if node.id in self.names:
            node.id = node.id + "_rn"
        return node

    def visit_arg(self, node):
        return node


def rename_locals(tree):
    """Rename locals of every top-level function / method (nested defs handled with their
    enclosing function so that closures stay consistent)."""
    def top_funcs(body):
        for st in body:
            if isinstance(st, (ast.FunctionDef, ast.AsyncFunctionDef)):
                yield st
            elif isinstance(st, ast.ClassDef):
                yield from top_funcs(st.body)

    for fn in top_funcs(tree.body):
        params = set()
        declared_global = set()
        assigned = set()
        nested_params = set()
        for n in ast.walk(fn):
            if isinstance(n, (ast.FunctionDef, ast.AsyncFunctionDef, ast.Lambda)):
                a = n.args
                ps = [x.arg for x in a.posonlyargs + a.args + a.kwonlyargs]
                if a.vararg:
                    ps.append(a.vararg.arg)
                if a.kwarg:
                    ps.append(a.kwarg.arg)
                if n is fn:
                    params |= set(ps)
                else:
                    nested_params |= set(ps)
            if isinstance(n, (ast.Global, ast.Nonlocal)):
                declared_global |= set(n.names)
            if isinstance(n, ast.Name) and isinstance(n.ctx, (ast.Store, ast.Del)):
                assigned.add(n.id)
            if isinstance(n, ast.ExceptHandler) and n.name:
                pass  # handler names are plain strings, leave them
        # names of nested defs / classes are bound by statements, not Name nodes: leave them
        names = assigned - params - declared_global - nested_params
        # exception handler names are referenced via Name loads: do not rename them
        for n in ast.walk(fn):
            if isinstance(n, ast.ExceptHandler) and n.name:
                names.discard(n.name)
            if isinstance(n, (ast.FunctionDef, ast.AsyncFunctionDef, ast.ClassDef)) and n is not fn:
                names.discard(n.name)
            if isinstance(n, (ast.Import, ast.ImportFrom)):
                for al in n.names:
                    names.discard((al.asname or al.name).split(".")[0])
        Renamer(names).visit(fn)
    return tree


DETAIL = {}


class Hoister(ast.NodeTransformer):
    """`return EXPR` -> `ret_N = EXPR; return ret_N` and `if TEST:` -> `cond_N = TEST; if cond_N:`
    (plain ifs only: an elif test must stay where it is).  Evaluation order is unchanged."""

    def __init__(self, do_if=True, do_ret=True):
        self.n = 0
        self.do_if, self.do_ret = do_if, do_ret

    def _body(self, body):
        out = []
        for st in body:
            st = self.visit(st)
            if self.do_ret and isinstance(st, ast.Return) and st.value is not None and not isinstance(st.value, (ast.Name, ast.Constant)):
                self.n += 1
                nm = "ret_%d" % self.n
                out.append(ast.copy_location(ast.Assign(targets=[ast.Name(id=nm, ctx=ast.Store())], value=st.value), st))
                st = ast.copy_location(ast.Return(value=ast.Name(id=nm, ctx=ast.Load())), st)
            elif self.do_if and isinstance(st, ast.If) and not isinstance(st.test, (ast.Name, ast.Constant)) \
                    and not any(isinstance(x, (ast.NamedExpr, ast.Yield, ast.Await)) for x in ast.walk(st.test)):
                self.n += 1
                nm = "cond_%d" % self.n
                out.append(ast.copy_location(ast.Assign(targets=[ast.Name(id=nm, ctx=ast.Store())], value=st.test), st))
                st.test = ast.Name(id=nm, ctx=ast.Load())
            out.append(st)
        return out

    def generic_visit(self, node):
        for f in ("body", "orelse", "finalbody"):
            b = getattr(node, f, None)
            if isinstance(b, list) and b and isinstance(b[0], ast.stmt):
                if f == "orelse" and isinstance(node, ast.If) and len(b) == 1 and isinstance(b[0], ast.If):
                    # elif chain: do not hoist the elif test; still recurse into it
                    b[0] = self.visit(b[0])
                    continue
                setattr(node, f, self._body(b))
        if isinstance(node, ast.Try):
            for h in node.handlers:
                h.body = self._body(h.body)
        return node


class Negator(ast.NodeTransformer):
    """`if T: A else: B` (B non-empty, not an elif chain) -> `if not T: B else: A`."""

    def visit_If(self, node):
        self.generic_visit(node)
        if node.orelse and not (len(node.orelse) == 1 and isinstance(node.orelse[0], ast.If)):
            t = node.test
            if isinstance(t, ast.UnaryOp) and isinstance(t.op, ast.Not):
                nt = t.operand
            else:
                nt = ast.UnaryOp(op=ast.Not(), operand=t)
            node.test = nt
            node.body, node.orelse = node.orelse, node.body
        return node


class PassInserter(ast.NodeTransformer):
    """A `pass` at the start of every statement block (after a docstring)."""

    def generic_visit(self, node):
        super().generic_visit(node)
        for f in ("body", "orelse", "finalbody"):
            b = getattr(node, f, None)
            if isinstance(b, list) and b and isinstance(b[0], ast.stmt) and not isinstance(node, (ast.Module, ast.ClassDef)):
                if f == "orelse" and isinstance(node, ast.If) and len(b) == 1 and isinstance(b[0], ast.If):
                    continue
                k = 1 if (f == "body" and isinstance(node, (ast.FunctionDef, ast.AsyncFunctionDef)) and isinstance(b[0], ast.Expr)
                          and isinstance(b[0].value, ast.Constant) and isinstance(b[0].value.value, str)) else 0
                b.insert(k, ast.copy_location(ast.Pass(), b[min(k, len(b) - 1)]))
        if isinstance(node, ast.Try):
            for h in node.handlers:
                h.body.insert(0, ast.copy_location(ast.Pass(), h.body[0]))
        return node


def reverse_methods(tree):
    """Reverse the order of the plain methods of every class (decorated methods, which may depend on
    an earlier definition such as a property setter, and all other statements keep their place)."""
    for n in ast.walk(tree):
        if isinstance(n, ast.ClassDef):
            idx = [i for i, st in enumerate(n.body) if isinstance(st, ast.FunctionDef) and not st.decorator_list]
            vals = [n.body[i] for i in idx][::-1]
            for i, v in zip(idx, vals):
                n.body[i] = v
    return tree


def verdicts(repo):
    out = {}
    for p in PROPS:
        try:
            ck = run_property(p, repo, "quick", "explicit")
            ck.check_expected()
            _known, new = split_known(ck)
            out[p] = sorted({(o.rule, stable_key(o.key)) for o in new})
            DETAIL[p] = {(o.rule, stable_key(o.key)): "%s :: %s" % (o.key, o.msg) for o in new}
        except AnalysisError as e:
            out[p] = "ANALYSIS-ERROR: %s" % e
        except Exception as e:  # noqa
            out[p] = "CRASH: %r" % e
    return out


def transform(mode, tree):
    if mode == "rename":
        tree = rename_locals(tree)
    elif mode == "hoist":
        tree = Hoister().visit(tree)
    elif mode == "hoist-ret":
        tree = Hoister(do_if=False).visit(tree)
    elif mode == "hoist-if":
        tree = Hoister(do_ret=False).visit(tree)
    elif mode == "pass":
        tree = PassInserter().visit(tree)
    elif mode == "methods":
        tree = reverse_methods(tree)
    elif mode == "negate":
        tree = Negator().visit(tree)
    elif mode in EXTRA:
        tree = EXTRA[mode](tree)
    elif mode != "reflow":
        raise SystemExit("unknown mode " + mode)
    ast.fix_missing_locations(tree)
    return tree


EXTRA = {}


def one_module(args):
    mode, name, relpath, source, base = args
    lines = []
    tree = ast.parse(source, type_comments=True)
    tree = transform(mode, tree)
    src = ast.unparse(tree)
    try:
        compile(src, relpath, "exec")
    except SyntaxError as e:
        return (name, 0, ["%-22s rewrite does not compile: %s" % (name, e)])
    repo = Repo(overlay={relpath: src})
    v = verdicts(repo)
    diffs = {p: v[p] for p in PROPS if v[p] != base[p]}
    if not diffs:
        return (name, 0, ["%-22s ok" % name])
    lines.append("%-22s verdict changed:" % name)
    for p, d in diffs.items():
        lines.append("     %s: %s" % (p, d if isinstance(d, str) else [x for x in d if x not in (base[p] if isinstance(base[p], list) else [])][:4]))
        if not isinstance(d, str):
            for x in d:
                if x not in (base[p] if isinstance(base[p], list) else []):
                    lines.append("         %s" % DETAIL.get(p, {}).get(x, "")[:400])
    return (name, 1, lines)


def main():
    from multiprocessing import Pool
    mode = sys.argv[1] if len(sys.argv) > 1 else "rename"
    only = [a for a in sys.argv[2:] if not a.startswith("-")]
    base_repo = Repo()
    base = verdicts(base_repo)
    jobs = [(mode, name, m.relpath, m.source, base) for name, m in sorted(base_repo.modules.items()) if not only or name in only]
    with Pool(int(os.environ.get("SWEEP_JOBS", "8"))) as pool:
        res = pool.map(one_module, jobs, chunksize=1)
    bad = 0
    for name, b, lines in res:
        bad += b
        print("\n".join(lines))
    print("mode %s: modules with changed verdicts: %d of %d" % (mode, bad, len(jobs)))
    return 1 if bad else 0


if __name__ == "__main__":
    sys.exit(main())
