#!/usr/bin/env python3
"""Development-time robustness sweep: apply behaviour-preserving rewrites to an in-memory
overlay of every module and require that no check changes its verdict.

  rename  : every local variable (assigned in the function, not a parameter / global) of every
            function is renamed consistently (x -> x_rn), nested scopes included
  reflow  : the module is re-emitted by ast.unparse (all formatting, comments and line numbers
            change; `# type:` comments are re-attached by unparse for assignments)

Usage: tools/benign_sweep.py [rename|reflow] [module ...]
"""
import ast
import os
import sys

sys.path.insert(0, os.path.dirname(os.path.dirname(os.path.abspath(__file__))))
from sa.loader import Repo, PKG_DIR, AnalysisError  # noqa: E402
from sa.check import run_property  # noqa: E402

PROPS = ["C%02d" % i for i in range(1, 20)]


class Renamer(ast.NodeTransformer):
    def __init__(self, names):
        self.names = names

    def visit_Name(self, node):
        if node.id in self.names:
            node.id = node.id + "_rn"
        return node

    def visit_arg(self, node):
        return node


def rename_locals(tree):
    """Rename locals of every top-level function / method (nested defs handled with their
    enclosing function so that closures stay consistent)."""
    def top_funcs(body):
        for st in body:
            if isinstance(st, (ast.FunctionDef, ast.AsyncFunctionDef)):
                yield st
            elif isinstance(st, ast.ClassDef):
                yield from top_funcs(st.body)

    for fn in top_funcs(tree.body):
        params = set()
        declared_global = set()
        assigned = set()
        nested_params = set()
        for n in ast.walk(fn):
            if isinstance(n, (ast.FunctionDef, ast.AsyncFunctionDef, ast.Lambda)):
                a = n.args
                ps = [x.arg for x in a.posonlyargs + a.args + a.kwonlyargs]
                if a.vararg:
                    ps.append(a.vararg.arg)
                if a.kwarg:
                    ps.append(a.kwarg.arg)
                if n is fn:
                    params |= set(ps)
                else:
                    nested_params |= set(ps)
            if isinstance(n, (ast.Global, ast.Nonlocal)):
                declared_global |= set(n.names)
            if isinstance(n, ast.Name) and isinstance(n.ctx, (ast.Store, ast.Del)):
                assigned.add(n.id)
            if isinstance(n, ast.ExceptHandler) and n.name:
                pass  # handler names are plain strings, leave them
        # names of nested defs / classes are bound by statements, not Name nodes: leave them
        names = assigned - params - declared_global - nested_params
        # exception handler names are referenced via Name loads: do not rename them
        for n in ast.walk(fn):
            if isinstance(n, ast.ExceptHandler) and n.name:
                names.discard(n.name)
            if isinstance(n, (ast.FunctionDef, ast.AsyncFunctionDef, ast.ClassDef)) and n is not fn:
                names.discard(n.name)
            if isinstance(n, (ast.Import, ast.ImportFrom)):
                for al in n.names:
                    names.discard((al.asname or al.name).split(".")[0])
        Renamer(names).visit(fn)
    return tree


DETAIL = {}


def verdicts(repo):
    out = {}
    for p in PROPS:
        try:
            ck = run_property(p, repo, "quick", "explicit")
            ck.check_expected()
            out[p] = sorted({(o.rule, o.key.split("::")[0]) for o in ck.obs if o.verdict == "violation"})
            DETAIL[p] = {(o.rule, o.key.split("::")[0]): "%s :: %s" % (o.key, o.msg) for o in ck.obs if o.verdict == "violation"}
        except AnalysisError as e:
            out[p] = "ANALYSIS-ERROR: %s" % e
        except Exception as e:  # noqa
            out[p] = "CRASH: %r" % e
    return out


def main():
    mode = sys.argv[1] if len(sys.argv) > 1 else "rename"
    only = sys.argv[2:]
    base_repo = Repo()
    base = verdicts(base_repo)
    bad = 0
    for name, m in sorted(base_repo.modules.items()):
        if only and name not in only:
            continue
        tree = ast.parse(m.source, type_comments=True)
        if mode == "rename":
            tree = rename_locals(tree)
        src = ast.unparse(tree)
        try:
            compile(src, m.relpath, "exec")
        except SyntaxError as e:
            print("%-22s rewrite does not compile: %s" % (name, e))
            continue
        repo = Repo(overlay={m.relpath: src})
        v = verdicts(repo)
        diffs = {p: v[p] for p in PROPS if v[p] != base[p]}
        if diffs:
            bad += 1
            print("%-22s verdict changed:" % name)
            for p, d in diffs.items():
                print("     %s: %s" % (p, d if isinstance(d, str) else [x for x in d if x not in (base[p] if isinstance(base[p], list) else [])][:4]))
                if not isinstance(d, str) and os.environ.get("SWEEP_DETAIL"):
                    for x in d:
                        if x not in (base[p] if isinstance(base[p], list) else []):
                            print("         %s" % DETAIL.get(p, {}).get(x, "")[:400])
        else:
            print("%-22s ok" % name)
    print("modules with changed verdicts: %d" % bad)
    return 1 if bad else 0


if __name__ == "__main__":
    sys.exit(main())
