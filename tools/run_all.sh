#!/bin/sh
# tools/run_all.sh [quick|thorough] : run every registered check, print one line each
TIER=${1:-quick}
cd "$(dirname "$0")/.."
rc_all=0
for p in C01 C02 C03 C04 C05 C06 C07 C08 C09 C10 C11 C12 C13 C14 C15 C16 C17 C18 C19; do
  out=$(/venv/bin/python -m sa.check $p --tier $TIER 2>&1); rc=$?
  echo "$out" | grep -E "^(VIOLATION|ANALYSIS-ERROR)" | cut -c1-220
  echo "$out" | tail -1 | sed "s/^/rc=$rc  /"
  [ $rc -ne 0 ] && rc_all=1
done
exit $rc_all
