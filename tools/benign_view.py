#!/usr/bin/env python3
"""Development-time: apply a benign patch to a scratch copy, print rename recovery / inliner summary and
optionally the flattened source of functions.  usage: tools/benign_view.py <benign-id> [qual ...]"""
import ast, os, shutil, subprocess, sys, tempfile
VERIF = os.path.dirname(os.path.dirname(os.path.abspath(__file__)))
sys.path.insert(0, VERIF)
from sa.loader import Repo
bid = sys.argv[1]
src = os.path.join(VERIF, os.environ.get("BENIGN_DIR", "benign"), bid, "patch.diff")
for _d in ("benign", "benign2", "benign3"):
    if not os.path.exists(src):
        src = os.path.join(VERIF, _d, bid, "patch.diff")
if not os.path.exists(src):
    src = os.path.join(VERIF, "seeded", bid, "patch.diff")
scratch = tempfile.mkdtemp(prefix="bview-")
try:
    shutil.copytree("/repo/twosigma", os.path.join(scratch, "twosigma"))
    subprocess.run("patch -p1 -s --no-backup-if-mismatch < %s" % src, shell=True, cwd=scratch, check=True)
    repo = Repo(scratch)
    print("renamed back:", repo.renamed)
    print("re-outlined:", repo.reoutlined)
    inl = repo.inliner
    if inl is not None:
        print("new:", [f.qual for f in inl.new]); print("inlined:", inl.inlined_sites); print("left:", inl.left_sites, inl.log[:5]); print("dropped:", getattr(inl, "dropped", None))
    for q in sys.argv[2:]:
        f = repo.try_func(q)
        print("=" * 20, q); print(ast.unparse(f.node) if f else "not found")
finally:
    shutil.rmtree(scratch, ignore_errors=True)
