#!/usr/bin/env python3
"""Development-time: re-base a kept seed by hand.  usage: tools/rebase_manual.py <seed-id> <spec.py>
spec.py defines EDITS = [(relative file, old text, new text), ...] against /repo's current HEAD; the edits are applied in a
scratch worktree, the pinned suite must pass and the seed's demo must fail with them and pass without; then patch.diff is
replaced and meta.json notes the re-base."""
import json, os, subprocess, sys, shutil
VERIF = os.path.dirname(os.path.dirname(os.path.abspath(__file__)))
def sh(cmd, cwd=None):
    return subprocess.run(cmd, shell=True, capture_output=True, text=True, cwd=cwd)
sid, spec = sys.argv[1], sys.argv[2]
ns = {}
exec(open(spec).read(), ns)
d = os.path.join(VERIF, "seeded", sid)
wt = "/tmp/wt-rebase-%s" % sid
sh("git -C /repo worktree remove --force %s" % wt)
assert sh("git -C /repo worktree add -q %s HEAD" % wt).returncode == 0
try:
    shutil.copy(os.path.join(d, "demo.py"), os.path.join(wt, "demo.py"))
    base = sh("/venv/bin/python demo.py", cwd=wt)
    for (f, old, new) in ns["EDITS"]:
        p = os.path.join(wt, f)
        s = open(p).read()
        assert s.count(old) == 1, "%s: anchor occurs %d times in %s" % (sid, s.count(old), f)
        open(p, "w").write(s.replace(old, new))
    new = sh("git diff HEAD -- twosigma/memento", cwd=wt).stdout
    t = sh("/venv/bin/python -m pytest -q -p no:cacheprovider -n 8 2>&1 | tail -1", cwd=wt).stdout.strip()
    withp = sh("/venv/bin/python demo.py", cwd=wt)
    print(sid, "demo unchanged:", base.returncode, "| suite with patch:", t, "| demo patched:", withp.returncode)
    if base.returncode == 0 and withp.returncode != 0 and " passed" in t and "failed" not in t:
        open(os.path.join(d, "patch.diff"), "w").write(new)
        meta = json.load(open(os.path.join(d, "meta.json")))
        head = sh("git -C /repo rev-parse --short HEAD").stdout.strip()
        meta.setdefault("rebased", []).append({"onto": head, "how": "by hand (context changed by a fix commit), re-confirmed: suite passes, demo fails with the patch and passes without"})
        json.dump(meta, open(os.path.join(d, "meta.json"), "w"), indent=1)
        print("  re-based onto", head)
    else:
        print("  NOT re-based"); print(base.stdout[-300:], base.stderr[-300:], withp.stderr[-200:])
finally:
    sh("git -C /repo worktree remove --force %s" % wt)
