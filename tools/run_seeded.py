#!/usr/bin/env python3
"""Development-time harness: apply each seeded change (/verif/seeded/<id>/patch.diff) to /repo,
run every registered quick check, undo the change straight afterwards, and print which checks
fire.  Nothing is committed to /repo.  Usage: tools/run_seeded.py [seed-id ...] [--all-props]

By default only the check of the property the seed breaks (meta.json: property) is required to
fire; with --all-props every check is run so that cross-detections are listed too.
"""
import json
import os
import subprocess
import sys

VERIF = os.path.dirname(os.path.dirname(os.path.abspath(__file__)))
REPO = os.environ.get("MEMENTO_REPO", "/repo")
PROPS = ["C%02d" % i for i in range(1, 20)]


def sh(cmd, **kw):
    return subprocess.run(cmd, shell=True, capture_output=True, text=True, **kw)


def clean():
    st = sh("git -C %s status --porcelain -- twosigma" % REPO).stdout.strip()
    return st == ""


def run_checks(props):
    out = {}
    for p in props:
        r = sh("cd %s && /venv/bin/python -m sa.check %s --tier quick" % (VERIF, p))
        viol = [l for l in r.stdout.splitlines() if l.startswith("VIOLATION")]
        diag = [l for l in r.stdout.splitlines() if " :: " in l and not l.startswith(("VIOLATION", "KNOWN"))]
        err = [l for l in r.stdout.splitlines() if l.startswith("ANALYSIS-ERROR")]
        out[p] = (r.returncode, len(viol), diag, err)
    return out


def main():
    args = [a for a in sys.argv[1:] if not a.startswith("--")]
    allp = "--all-props" in sys.argv
    base = os.path.join(VERIF, "seeded")
    ids = args or sorted(d for d in os.listdir(base) if os.path.isdir(os.path.join(base, d)))
    if not clean():
        print("refusing to run: /repo has uncommitted changes under twosigma/")
        return 2
    rows = []
    for sid in ids:
        d = os.path.join(base, sid)
        meta = json.load(open(os.path.join(d, "meta.json")))
        patch = os.path.join(d, "patch.diff")
        r = sh("git -C %s apply --check %s" % (REPO, patch))
        if r.returncode != 0:
            print("%-28s patch does not apply: %s" % (sid, r.stderr.strip()[:120]))
            continue
        sh("git -C %s apply %s" % (REPO, patch))
        try:
            props = PROPS if allp else [meta["property"]]
            res = run_checks(props)
        finally:
            sh("git -C %s checkout -- twosigma" % REPO)
        own = res[meta["property"]]
        fired = [p for p, (rc, nv, dg, er) in res.items() if rc == 1]
        errs = [p for p, (rc, nv, dg, er) in res.items() if rc == 2]
        status = "CAUGHT" if own[0] == 1 else ("ANALYSIS-ERROR" if own[0] == 2 else "missed")
        print("%-28s %-5s %-14s fired=%s%s" % (sid, meta["property"], status, ",".join(fired) or "-", (" errors=" + ",".join(errs)) if errs else ""))
        for line in own[2][:3]:
            print("      " + line[:230])
        for line in own[3][:2]:
            print("      " + line[:230])
        rows.append((sid, meta["property"], status, fired))
    assert clean(), "/repo not clean after run!"
    n = len(rows)
    c = sum(1 for r in rows if r[2] == "CAUGHT")
    print("caught %d of %d seeded changes by the check of their own property" % (c, n))
    return 0


if __name__ == "__main__":
    sys.exit(main())
