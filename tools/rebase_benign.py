#!/usr/bin/env python3
"""Development-time: re-base the patches of a benign corpus that no longer apply to /repo's HEAD (a `fix:` commit changed their
context).  A patch is re-based only when `git apply --3way` merges it without conflict, the tree compiles and the pinned suite
still passes with it; the others are left as they are (tools/run_benign.py reports them as "no longer apply").
usage: BENIGN_DIR=benign2 tools/rebase_benign.py [jobs]"""
import json, os, subprocess, sys
from multiprocessing import Pool
VERIF = os.path.dirname(os.path.dirname(os.path.abspath(__file__)))
CORPUS = os.environ.get("BENIGN_DIR", "benign")


def sh(cmd, cwd=None):
    return subprocess.run(cmd, shell=True, capture_output=True, text=True, cwd=cwd)


def one(pid):
    d = os.path.join(VERIF, CORPUS, pid)
    patch = os.path.join(d, "patch.diff")
    wt = "/tmp/wt-bre-%s-%s" % (CORPUS, pid)
    sh("git -C /repo worktree remove --force %s" % wt)
    if sh("git -C /repo worktree add -q --detach %s HEAD" % wt).returncode != 0:
        return pid, "worktree failed"
    try:
        if sh("git apply --check %s" % patch, cwd=wt).returncode == 0:
            return pid, "applies"
        r = sh("git apply --3way %s" % patch, cwd=wt)
        if r.returncode != 0 or sh("git diff --name-only --diff-filter=U", cwd=wt).stdout.strip():
            return pid, "conflict"
        sh("git reset -q", cwd=wt)
        if sh("/venv/bin/python -m compileall -q twosigma", cwd=wt).returncode != 0:
            return pid, "does not compile"
        t = sh("/venv/bin/python -m pytest -q -p no:cacheprovider -n 2 2>&1 | tail -1", cwd=wt).stdout.strip()
        if " passed" not in t or "failed" in t or "error" in t.lower():
            return pid, "suite: " + t
        new = sh("git diff HEAD -- twosigma", cwd=wt).stdout
        open(patch, "w").write(new)
        return pid, "re-based"
    finally:
        sh("git -C /repo worktree remove --force %s" % wt)


if __name__ == "__main__":
    ids = sorted(i for i in os.listdir(os.path.join(VERIF, CORPUS)) if os.path.isdir(os.path.join(VERIF, CORPUS, i)))
    with Pool(int(sys.argv[1]) if len(sys.argv) > 1 else 6) as pool:
        res = pool.map(one, ids, chunksize=1)
    counts = {}
    for pid, what in res:
        counts[what.split(":")[0]] = counts.get(what.split(":")[0], 0) + 1
        if what not in ("applies", "re-based"):
            print(pid, what)
    print(CORPUS, counts)
