#!/usr/bin/env python3
"""Development-time: re-base a kept seed onto /repo's current HEAD (after a fix commit changed the
context), re-confirming suite + demo.  tools/rebase_seed.py <seed-id>"""
import json, os, subprocess, sys, shutil
VERIF = os.path.dirname(os.path.dirname(os.path.abspath(__file__)))
def sh(cmd, cwd=None):
    return subprocess.run(cmd, shell=True, capture_output=True, text=True, cwd=cwd)
sid = sys.argv[1]
d = os.path.join(VERIF, "seeded", sid)
wt = "/tmp/wt-rebase-%s" % sid
sh("git -C /repo worktree remove --force %s" % wt)
assert sh("git -C /repo worktree add -q %s HEAD" % wt).returncode == 0
try:
    shutil.copy(os.path.join(d, "demo.py"), os.path.join(wt, "demo.py"))
    base = sh("/venv/bin/python demo.py", cwd=wt)
    r = sh("git apply --3way %s" % os.path.join(d, "patch.diff"), cwd=wt)
    if r.returncode != 0:
        print("3-way apply failed:", r.stderr[:300]); sys.exit(1)
    new = sh("git diff HEAD -- twosigma/memento", cwd=wt).stdout
    t = sh("/venv/bin/python -m pytest -q -p no:cacheprovider -n 8 2>&1 | tail -1", cwd=wt).stdout.strip()
    withp = sh("/venv/bin/python demo.py", cwd=wt)
    print("demo unchanged:", base.returncode, "| suite with patch:", t, "| demo patched:", withp.returncode)
    if base.returncode == 0 and withp.returncode != 0 and " passed" in t and "failed" not in t:
        open(os.path.join(d, "patch.diff"), "w").write(new)
        meta = json.load(open(os.path.join(d, "meta.json")))
        meta["base_commit"] = sh("git -C /repo rev-parse --short HEAD").stdout.strip()
        meta.setdefault("confirmed", []).append("re-based onto %s: demo unchanged %d, suite with patch: %s, demo patched %d" % (meta["base_commit"], base.returncode, t, withp.returncode))
        json.dump(meta, open(os.path.join(d, "meta.json"), "w"), indent=1)
        print("re-based", sid)
    else:
        print("NOT re-confirmed"); sys.exit(1)
finally:
    sh("git -C /repo worktree remove --force %s" % wt)
