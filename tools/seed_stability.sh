#!/bin/sh
# Development-time: the verdict lines of every check must not depend on hash randomisation.
# usage: tools/seed_stability.sh [repo dir]
cd "$(dirname "$0")/.."
R=${1:-/repo}
rm -f /tmp/seedstab-*.txt
for s in 0 1 7 11 23 101; do
  for i in 01 02 03 04 05 06 07 08 09 10 11 12 13 14 15 16 17 18 19; do
    PYTHONHASHSEED=$s /venv/bin/python -m sa.check C$i --repo $R --no-evidence 2>&1 | sed 's/wall=[0-9.]*s//' | grep -v "^  " | sort
  done > /tmp/seedstab-$s.txt
done
for s in 1 7 11 23 101; do
  if ! cmp -s /tmp/seedstab-0.txt /tmp/seedstab-$s.txt; then echo "DIFFERENT under PYTHONHASHSEED=$s"; diff /tmp/seedstab-0.txt /tmp/seedstab-$s.txt | head -10; fi
done
echo "seed stability: compared 6 seeds"
