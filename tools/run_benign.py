#!/usr/bin/env python3
"""Development-time false-alarm harness: behaviour-preserving refactorings written by independent
sub-agents (given only a property text and a scratch worktree; /verif/benign/<id>/patch.diff + note.md)
are applied, one at a time, to a private scratch copy of /repo's working tree; every one of the 19
checks must give exactly the verdict it gives on the unchanged tree (no new VIOLATION, no
ANALYSIS-ERROR).  /repo itself is never modified.

usage: tools/run_benign.py [benign-id ...]     (default: all of /verif/benign)
       tools/run_benign.py --import <agent worktree> <prefix>   copy benignN.patch / benignN.md from an agent's worktree
"""
import json
import os
import shutil
import subprocess
import sys
import tempfile

VERIF = os.path.dirname(os.path.dirname(os.path.abspath(__file__)))
sys.path.insert(0, VERIF)
REPO = os.environ.get("MEMENTO_REPO", "/repo")
PROPS = ["C%02d" % i for i in range(1, 20)]
if os.environ.get("PROPS"):   # PROPS=C05,C07 restricts the run to the checks of those properties (an owner's quick pass)
    PROPS = [x.strip() for x in os.environ["PROPS"].split(",") if x.strip()]
CORPUS = os.environ.get("BENIGN_DIR", "benign")   # benign = round 1 (six-per-property sweeps), benign2 = round 2 (focused)


def verdicts(root):
    from sa.loader import Repo, AnalysisError
    from sa.check import run_property
    from sa.report import split_known, stable_key
    out = {}
    detail = {}
    try:
        repo = Repo(root)
    except AnalysisError as e:
        return {p: "ANALYSIS-ERROR: %s" % e for p in PROPS}, {}
    cg = None
    for p in PROPS:
        try:
            ck = run_property(p, repo, "quick", "explicit", cg=cg)
            cg = ck._cg or cg
            ck.check_expected()
            _k, new = split_known(ck)
            out[p] = sorted({(o.rule, stable_key(o.key)) for o in new})
            for o in new:
                detail[(p, o.rule, stable_key(o.key))] = "%s %s :: %s" % (o.where, o.key, o.msg)
            if ck.analysis_errors:
                out[p] = "ANALYSIS-NOTE+violations: %s" % ck.analysis_errors
        except AnalysisError as e:
            out[p] = "ANALYSIS-ERROR: %s" % e
        except Exception as e:  # noqa
            out[p] = "CRASH: %r" % e
    return out, detail


class _Timeout(Exception):
    pass


def _alarm(signum, frame):
    raise _Timeout()


def one(args):
    import signal
    signal.signal(signal.SIGALRM, _alarm)
    signal.alarm(int(os.environ.get("BENIGN_TIMEOUT", "180")))
    try:
        return _one(args)
    except _Timeout:
        return (args[0], ["  TIMEOUT: the checks did not finish within the time limit on this patch"], None)
    finally:
        signal.alarm(0)


def _one(args):
    bid, base = args
    d = os.path.join(VERIF, CORPUS, bid)
    scratch = tempfile.mkdtemp(prefix="benignrun-")
    try:
        shutil.copytree(os.path.join(REPO, "twosigma"), os.path.join(scratch, "twosigma"))
        r = subprocess.run("patch -p1 -s --no-backup-if-mismatch < %s" % os.path.join(d, "patch.diff"), shell=True, cwd=scratch, capture_output=True, text=True)
        if r.returncode != 0:
            return (bid, None, "patch does not apply: %s" % (r.stdout + r.stderr).strip()[:150])
        v, detail = verdicts(scratch)
    finally:
        shutil.rmtree(scratch, ignore_errors=True)
    lines = []
    for p in PROPS:
        if v[p] != base[p]:
            if isinstance(v[p], str):
                lines.append("  %s: %s" % (p, v[p][:300]))
            else:
                for x in v[p]:
                    if not isinstance(base[p], list) or x not in base[p]:
                        lines.append("  %s: FALSE ALARM %s %s" % (p, x[0], detail.get((p,) + x, "")[:330]))
    return (bid, lines, None)


def main():
    if len(sys.argv) > 1 and sys.argv[1] == "--import":
        wt, prefix = sys.argv[2], sys.argv[3]
        n = 0
        for i in range(1, 10):
            pf = os.path.join(wt, "benign%d.patch" % i)
            if os.path.exists(pf):
                d = os.path.join(VERIF, CORPUS, "%s-%d" % (prefix, i))
                os.makedirs(d, exist_ok=True)
                shutil.copy(pf, os.path.join(d, "patch.diff"))
                md = os.path.join(wt, "benign%d.md" % i)
                if os.path.exists(md):
                    shutil.copy(md, os.path.join(d, "note.md"))
                n += 1
        print("imported %d patches as %s-N" % (n, prefix))
        return 0
    ids = [a for a in sys.argv[1:] if not a.startswith("-")] or sorted(os.listdir(os.path.join(VERIF, CORPUS)))
    ids = [i for i in ids if os.path.isdir(os.path.join(VERIF, CORPUS, i))]
    base, _ = verdicts(REPO)
    broken = {p: v for p, v in base.items() if v != []}
    if broken:
        # the comparison below is against the unchanged tree: a check that does not pass there would mask the same verdict on a patch
        print("the unchanged tree does not pass: %s" % {p: (v if isinstance(v, str) else "%d violations" % len(v)) for p, v in broken.items()})
        sys.exit(2)
    from multiprocessing import Pool
    with Pool(int(os.environ.get("BENIGN_JOBS", "12"))) as pool:
        res = pool.map(one, [(i, base) for i in ids], chunksize=1)
    bad = 0
    stale = 0
    for (bid, lines, err) in res:
        if err:
            stale += 1
            print("%-14s %s" % (bid, err))
        elif lines:
            bad += 1
            print("%-14s verdict changed:" % bid)
            print("\n".join(lines))
        else:
            print("%-14s silent" % bid)
    print("benign refactorings with a changed verdict: %d of %d that apply (%d no longer apply to the current tree)" % (bad, len(ids) - stale, stale))
    return 1 if bad else 0


if __name__ == "__main__":
    sys.exit(main())
