#!/usr/bin/env python3
"""Development-time: confirm a sub-agent's seeded change and keep it under /verif/seeded/<id>/.

  tools/import_seed.py <agent worktree> <n> <seed-id> <property> ["needs ..."]

Confirms, in a fresh scratch worktree of /repo (removed afterwards):
  * the patch applies to the unchanged tree and the tree still byte-compiles,
  * the pinned test suite passes with the patch applied,
  * the demonstration fails with the patch and passes without it.
Only then are patch.diff, demo.py, note.md and meta.json written.
"""
import json
import os
import shutil
import subprocess
import sys

VERIF = os.path.dirname(os.path.dirname(os.path.abspath(__file__)))
REPO = "/repo"


def sh(cmd, cwd=None, timeout=900):
    return subprocess.run(cmd, shell=True, capture_output=True, text=True, cwd=cwd, timeout=timeout)


def main():
    wt, n, sid, prop = sys.argv[1:5]
    needs = sys.argv[5] if len(sys.argv) > 5 else ""
    patch = os.path.join(wt, "seed%s.patch" % n)
    demo = os.path.join(wt, "demo%s.py" % n)
    note = os.path.join(wt, "note%s.md" % n)
    for f in (patch, demo):
        if not os.path.exists(f):
            print("missing", f)
            return 1
    scratch = "/tmp/wt-verify-%s" % sid
    sh("git -C %s worktree remove --force %s" % (REPO, scratch))
    r = sh("git -C %s worktree add -q %s HEAD" % (REPO, scratch))
    if r.returncode != 0:
        print(r.stderr)
        return 1
    ran = []
    ok = False
    try:
        shutil.copy(demo, os.path.join(scratch, "demo.py"))
        base = sh("/venv/bin/python demo.py", cwd=scratch, timeout=600)
        ran.append("unchanged tree: demo exit %d" % base.returncode)
        r = sh("git apply %s" % patch, cwd=scratch)
        if r.returncode != 0:
            print("patch does not apply:", r.stderr[:300])
            return 1
        r = sh("/venv/bin/python -m compileall -q twosigma", cwd=scratch)
        ran.append("compileall exit %d" % r.returncode)
        comp_ok = r.returncode == 0
        t = sh("/venv/bin/python -m pytest -q -p no:cacheprovider -n 8 2>&1 | tail -1", cwd=scratch)
        ran.append("pinned suite with patch: %s" % t.stdout.strip())
        suite_ok = " passed" in t.stdout and "failed" not in t.stdout and "error" not in t.stdout.lower()
        withp = sh("/venv/bin/python demo.py", cwd=scratch, timeout=600)
        ran.append("patched tree: demo exit %d" % withp.returncode)
        ok = comp_ok and suite_ok and base.returncode == 0 and withp.returncode != 0
        print("\n".join(ran))
        if not ok:
            print("NOT confirmed (need: compiles, suite passes, demo 0 without / non-zero with)")
            print(withp.stdout[-400:], withp.stderr[-400:])
            return 1
    finally:
        sh("git -C %s worktree remove --force %s" % (REPO, scratch))
    d = os.path.join(VERIF, "seeded", sid)
    os.makedirs(d, exist_ok=True)
    shutil.copy(patch, os.path.join(d, "patch.diff"))
    shutil.copy(demo, os.path.join(d, "demo.py"))
    if os.path.exists(note):
        shutil.copy(note, os.path.join(d, "note.md"))
    files = sh("git apply --numstat %s" % os.path.join(d, "patch.diff"), cwd=REPO).stdout
    meta = {
        "id": sid,
        "property": prop,
        "needs_to_manifest": needs,
        "files_touched": [l.split("\t")[2] for l in files.strip().splitlines() if l.count("\t") >= 2],
        "origin": "independent sub-agent given only the property text and a scratch worktree of /repo",
        "confirmed": ran,
        "base_commit": sh("git -C %s rev-parse --short HEAD" % REPO).stdout.strip(),
    }
    json.dump(meta, open(os.path.join(d, "meta.json"), "w"), indent=1)
    print("kept as", d)
    return 0


if __name__ == "__main__":
    sys.exit(main())
