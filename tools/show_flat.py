#!/usr/bin/env python3
"""Development-time: print what the inliner did and the flattened source of the given functions.
usage: tools/show_flat.py [qual ...]"""
import ast, os, sys
sys.path.insert(0, os.path.dirname(os.path.dirname(os.path.abspath(__file__))))
from sa.loader import Repo
repo = Repo()
inl = repo.inliner
if inl is None:
    print("no new functions"); sys.exit(0)
print("new:", [f.qual for f in inl.new])
print("inlined sites:", inl.inlined_sites)
print("left:", inl.left_sites, inl.log)
print("dropped:", getattr(inl, "dropped", None))
for q in sys.argv[1:]:
    f = repo.try_func(q)
    print("=" * 30, q)
    print(ast.unparse(f.node) if f else "not found")
