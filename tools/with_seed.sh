#!/bin/sh
# tools/with_seed.sh <seed-id> <command...> : apply the seed to /repo, run the command in /verif, undo the seed
S=$1; shift
trap 'git -C /repo checkout -- twosigma' EXIT INT TERM
git -C /repo apply /verif/seeded/$S/patch.diff || exit 3
( cd /verif && "$@" )
