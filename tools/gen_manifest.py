#!/usr/bin/env python3
"""Regenerate /verif/MANIFEST.json from the table below (kept beside the rules so the
claimed clauses, the residue and the registered commands never drift apart)."""
import json
import os
import sys

VERIF = os.path.dirname(os.path.dirname(os.path.abspath(__file__)))
PY = "/venv/bin/python"

# id -> (decides, residue)
TABLE = {
    "C01": ("hash-input coverage of function/code attributes; every rule kind feeds the digest; transitive descent; "
            "the version is in every storage/cache/mutex key; dependency enforcement dominates dispatch",
            "equality with an un-memoized run on generated programs and edit histories"),
    "C02": ("result-type exhaustiveness; subclass-before-superclass dispatch order; run-once / record / replay path "
            "rules in the local runner; replay totality of exception reconstruction; frame rule for the returned value",
            "value equality after read-back for all values; 'exactly once' as a count"),
    "C03": ("determinism taint into every digest (no seed-/address-/path-dependent text, sorted iteration), total order "
            "of hash rules on one key",
            "that a second process executes nothing"),
    "C04": ("encoder/decoder/validator dispatch agreement; canonical sorted-key JSON; full SHA-256 hex digest; "
            "normalise-before-hash-and-call def-use; context args under the reserved key",
            "injectivity / invariance over all pairs of argument values"),
    "C05": ("key = (versioned name, arg hash) at every keying site; forget scope terminated by the separator and "
            "mirrored in the cache; queries are effect-free; path-scheme writer/reader agreement; cache replace-on-put",
            "dictionary equivalence over all operation histories"),
    "C06": ("accounting pairing at every resident-set mutation; budget guard and evict-until-fits loop dominate the "
            "insertion; LRU end discipline; hit implies mark-used; forget goes through the accounting helper",
            "which entries are evicted over an arbitrary history"),
    "C07": ("content key is SHA-256 of the very bytes written; dedupe path writes nothing; reads are versioned; forget "
            "never reaches data deletion; fresh version directory per write",
            "whole-store scan after every history"),
    "C08": ("data -> pointer -> metadata write order; a pointer is never trusted half-written (atomic publication or "
            "validated readers); I/O errors absorbed at the three recovery sites; readers validate the pointer target",
            "enumeration of concrete crash points at run time"),
    "C09": ("lockset discipline (mutex table, per-call critical section, cache guarded-by), lock order (leaf locks), "
            "thread-local call stack",
            "all interleavings (no schedule is executed or enumerated)"),
    "C10": ("provenance propagation on every result path; push/pop typestate; what propagation writes; self in the "
            "dependency set; resource append",
            "equality with the real call tree of generated programs"),
    "C11": ("encode/decode key-set agreement for every pair; constructor-field coverage; frozen wire-format table; "
            "argument tag agreement; last-'#' split of versioned keys",
            "datetime/NaN/non-ASCII value round-trips; hash preservation"),
    "C12": ("regex-AST field/terminator analysis of the qualified-name pattern; builder/parser delimiter agreement; "
            "exception escape on the metadata read path including the external fallback",
            "all name strings x all code evolutions"),
    "C13": ("generation/cache protocol on the CFG of the version updater; did_change re-resolves and compares; "
            "resolver closures capture only the root table; field-call type lint",
            "all in-process event sequences"),
    "C14": ("closure traversal completeness; direct/transitive derived from rules; computed versions never flow into "
            "the declared-version slot; enforcement dominates dispatch",
            "exactness of the closure on all reference graphs"),
    "C15": ("one result slot per element on every path, in input order; pre-check alignment; per-element single-flight "
            "path; first-exception scan order",
            "store-state equality with element-wise calls"),
    "C16": ("context args in the hash but not in the body call; inherit-iff-unset, replace not merge; frame carries "
            "the updated context; prevent-flag raise dominates dispatch; sibling call sites agree",
            "whole call trees"),
    "C17": ("merge-parent protocol holds for every Partition class; store() frame rule; parent-then-own overlay "
            "order; sibling get/list_keys agreement; index table agreement",
            "per-key value equality"),
    "C18": ("documented option subset-of read-from-config subset-of dumped; argument-overrides-file order; "
            "registry/type/to_dict agreement; first-match cluster search",
            "behavioural equivalence of reconstructed environments"),
    "C19": ("persistent-write effects unreachable when read_only is true; queries effect-free; flag plumbing; null "
            "storage constant-negative; null runner cannot reach a function body",
            "observation at the filesystem"),
}

TECH = {
    "C01": "def-use coverage of code-object attributes + call-graph/CFG path rules",
    "C02": "isinstance-ladder order analysis + CFG must-pass rules in the local runner",
    "C03": "determinism taint (def-use) into hashlib sinks + ordered-iteration lint",
    "C04": "dispatch-table agreement between encoder/decoder/validator + def-use",
    "C05": "key def-use at keying sites, effect summaries over the call graph, string-table agreement",
    "C06": "CFG dominance + accounting-pair lint on MemoryCache",
    "C07": "reaching definitions (hashed bytes = written bytes) + who-may-call over the call graph",
    "C08": "CFG must-precede (write order) + handler-coverage + published-name write lint",
    "C09": "static lockset / guarded-by / lock-order analysis over the call graph",
    "C10": "CFG must-pass-through and push/pop typestate",
    "C11": "encode/decode key-set and constructor-field table agreement",
    "C12": "regex-AST analysis + exception-escape (may-raise) analysis over the call graph",
    "C13": "CFG protocol rules + closure-capture (free variable) analysis",
    "C14": "taint from computed version to declared-version slot + traversal completeness",
    "C15": "per-iteration path rule (exactly one append) on the loop CFG",
    "C16": "def-use of context args + guard-dominates-dispatch",
    "C17": "duck-typing tests evaluated on class attribute tables + order rules",
    "C18": "docstring/constructor/to_dict option-table agreement + post-dominance of overrides",
    "C19": "branch-sensitive effect reachability (guard dominates persistent write)",
}


def main():
    sys.path.insert(0, VERIF)
    implemented = []
    for pid in sorted(TABLE):
        if os.path.exists(os.path.join(VERIF, "sa", "rules", pid.lower() + ".py")):
            implemented.append(pid)
    checks = []
    for pid in implemented:
        decides, residue = TABLE[pid]
        checks.append({
            "property_id": pid,
            "quick_cmd": "%s -m sa.check %s --tier quick" % (PY, pid),
            "thorough_cmd": "%s -m sa.check %s --tier thorough" % (PY, pid),
            "evidence_file": "/verif/evidence/%s.json" % pid,
            "replay_cmd_template": "%s -m sa.check %s --replay {path}" % (PY, pid),
            "engine": "sa",
            "technique": "static analysis: " + TECH[pid],
            "level_claimed": {
                "category": "other",
                "text": "Static analysis of /repo's current source. Decides these structural clauses (each a necessary "
                        "condition of the property) for every input/history at once: " + decides + ". It does not execute "
                        "the code; the behaviour as a whole is NOT claimed.",
                "design_ref": "DESIGN.md section 4, " + pid,
            },
            "level_note": "NOT decided (residue): " + residue + ". Trusted base: Python ast/CFG model in /verif/sa "
                          "(context managers do not swallow exceptions, attribute reads are pure), closed-world class "
                          "hierarchy of twosigma/memento, spec tables listed in the evidence file.",
        })
    na = []
    for pid in sorted(TABLE):
        if pid not in implemented:
            na.append({"property_id": pid,
                       "reason": "check not registered yet (static rules designed in DESIGN.md section 4 but not built); not claimed"})
    man = {
        "version": 1,
        "setup_cmd": "%s -m compileall -q sa" % PY,
        "hooks": {
            "guard": "TWOSIGMA_MEMENTO_VERIF",
            "enable": "none needed: the checks parse /repo's source and never run it; no hook commits exist",
            "baseline_off_cmd": "cd /repo && /venv/bin/python -m pytest -ra -q -p no:cacheprovider --timeout=900 --continue-on-collection-errors",
            "source_commits": [],
            "add_only": True,
        },
        "engines": [{
            "name": "sa",
            "path": "/verif/sa",
            "serves_properties": implemented,
            "kind_free_text": "repository-specific static analyser (ast + statement CFG + reaching definitions + resolved call graph + effect summaries), stdlib only, run with /venv/bin/python",
        }],
        "checks": checks,
        "not_applicable": na,
        "notes": "Family: static analysis. Exit 0 = all obligations discharged (KNOWN-FINDING lines for listed findings); "
                 "exit 1 + VIOLATION line = unlisted violation; exit 2 + ANALYSIS-ERROR = analysis broken (vanished anchor). "
                 "Known findings: /verif/known_findings.json.",
    }
    with open(os.path.join(VERIF, "MANIFEST.json"), "w") as f:
        json.dump(man, f, indent=1)
    print("MANIFEST.json: %d checks, %d not claimed" % (len(checks), len(na)))


if __name__ == "__main__":
    main()
