#!/usr/bin/env python3
"""Development-time: which functions of /repo does a canon step change?  usage: tools/canon_diff.py <step name>
Runs canonicalise with CANON_SKIP=<step> and without, and lists functions whose canonical form differs."""
import ast, os, sys, subprocess, json
VERIF = os.path.dirname(os.path.dirname(os.path.abspath(__file__)))
sys.path.insert(0, VERIF)
step = sys.argv[1]
code = '''
import sys, ast, json
sys.path.insert(0, %r)
from sa.loader import Repo
r = Repo(inline=False)
print(json.dumps({f.qual: ast.dump(f.node) for f in r.all_funcs() if f.parent is None}))
''' % VERIF
a = json.loads(subprocess.run(["/venv/bin/python", "-c", code], capture_output=True, text=True, env=dict(os.environ, CANON_SKIP="")).stdout)
b = json.loads(subprocess.run(["/venv/bin/python", "-c", code], capture_output=True, text=True, env=dict(os.environ, CANON_SKIP=step)).stdout)
diff = [q for q in a if a[q] != b.get(q)]
print("%d functions changed by step %s" % (len(diff), step))
for q in diff[:40]:
    print("  ", q)
