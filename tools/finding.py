#!/usr/bin/env python3
"""tools/finding.py <property> <rule> <status> <commit|-> <key> <what> : add an entry to known_findings.json (development-time only)."""
import json, sys, os
p = os.path.join(os.path.dirname(os.path.dirname(os.path.abspath(__file__))), "known_findings.json")
d = json.load(open(p))
prop, rule, status, commit, key, what = sys.argv[1:7]
e = {"property": prop, "rule": rule, "key": key, "status": status, "what": what}
if commit != "-":
    e["commit"] = commit
    e["line"] = "fixed: property=%s %s %s" % (prop, commit, what)
d["findings"] = [x for x in d["findings"] if not (x["property"] == prop and x["rule"] == rule and x["key"] == key)] + [e]
json.dump(d, open(p, "w"), indent=1)
print("recorded", prop, rule, status)
