#!/usr/bin/env python3
"""Development-time: write sa/inventory.json — the functions and shared tables of the reference
tree (the tree on which the rule instances were confirmed by reading).

The checker uses it for one purpose only: to tell which functions / shared tables of the tree under
analysis are *new* with respect to the reference.  A new helper is inlined into its callers before
the intraprocedural rules run (so an extract-method refactoring, benign or breaking, is judged on
the same shape as the reference), and a new shared table that is used as a memo is subjected to
the memo-table obligations (rules/memo.py).  Nothing fires because something merely differs
from the inventory.

Run from /verif after every `fix:` commit in /repo:  tools/gen_inventory.py
"""
import ast
import json
import os
import sys

sys.path.insert(0, os.path.dirname(os.path.dirname(os.path.abspath(__file__))))
from sa.loader import Repo  # noqa: E402
from sa.inline import shared_tables  # noqa: E402


def main():
    repo = Repo(inline=False)
    funcs = sorted(fi.qual for fi in repo.all_funcs())
    tables = sorted(shared_tables(repo))
    from sa.unrename import shape_tokens, _use_profile
    shapes = {fi.qual: shape_tokens(fi.node) for fi in repo.all_funcs()}
    classes = sorted(c.qual for c in repo.all_classes())
    class_shapes = {c.qual: shape_tokens(c.node) for c in repo.all_classes()}
    attr_profiles = {}
    for c in repo.all_classes():
        names = {t.split(":", 1)[1].replace("self.", "") for t in tables if t.split(":", 1)[0] == c.qual}
        attr_profiles[c.qual] = {n: _use_profile(repo, c, n, True) for n in sorted(names) if n.startswith("_") and not n.startswith("__")}
    global_order = {m.name: list(m.assigns) for m in repo.modules.values()}
    # who calls each private helper (by name, within the defining module): when a later change inlines the
    # helper into its caller(s) and removes it, the rules anchored on the helper look at the host instead
    callers = {}
    for m in repo.modules.values():
        priv = {}
        for fi in m.all_funcs():
            if fi.name.startswith("_") and not fi.name.startswith("__") or fi.parent is not None:
                priv.setdefault(fi.name, []).append(fi)
        for fi in m.all_funcs():
            for c in ast.walk(fi.node):
                if isinstance(c, ast.Call):
                    nm = c.func.attr if isinstance(c.func, ast.Attribute) else (c.func.id if isinstance(c.func, ast.Name) else None)
                    for callee in priv.get(nm, []):
                        if callee is not fi and (callee.parent is None or callee.parent is fi):
                            host = fi
                            while host.parent is not None and host is not callee.parent:
                                host = host.parent
                            callers.setdefault(callee.qual, [])
                            if host.qual not in callers[callee.qual]:
                                callers[callee.qual].append(host.qual)
    out = {
        "_doc": "functions, classes and shared tables of the reference tree, with the anonymised shape of every definition "
                "(used only to map renamed private names back and to tell which helpers / tables are new; see tools/gen_inventory.py)",
        "functions": funcs,
        "tables": tables,
        "shapes": shapes,
        "classes": classes,
        "class_shapes": class_shapes,
        "attr_profiles": attr_profiles,
        "global_order": global_order,
        "callers": callers,
        "sources": {q: ast.unparse(repo.func(q).node) for q in callers if repo.func(q).parent is None},
    }
    p = os.path.join(os.path.dirname(os.path.dirname(os.path.abspath(__file__))), "sa", "inventory.json")
    with open(p, "w") as f:
        json.dump(out, f, sort_keys=True, separators=(",", ":"))
    print("%d functions, %d shared tables -> %s" % (len(funcs), len(tables), p))


if __name__ == "__main__":
    main()
