#!/usr/bin/env python3
"""Development-time: write sa/inventory.json — the functions and shared tables of the reference
tree (the tree on which the rule instances were confirmed by reading).

The checker uses it for one purpose only: to tell which functions / shared tables of the tree under
analysis are *new* with respect to the reference.  A new helper is inlined into its callers before
the intraprocedural rules run (so an extract-method refactoring, benign or breaking, is judged on
the same shape as the reference), and a new shared table that is used as a memo is subjected to
the memo-table obligations (rules/memo.py).  Nothing fires because something merely differs
from the inventory.

Run from /verif after every `fix:` commit in /repo:  tools/gen_inventory.py
"""
import ast
import json
import os
import sys

sys.path.insert(0, os.path.dirname(os.path.dirname(os.path.abspath(__file__))))
from sa.loader import Repo  # noqa: E402
from sa.inline import shared_tables  # noqa: E402


def main():
    repo = Repo(inline=False)
    funcs = sorted(fi.qual for fi in repo.all_funcs())
    tables = sorted(shared_tables(repo))
    out = {
        "_doc": "functions and shared tables of the reference tree (see tools/gen_inventory.py)",
        "functions": funcs,
        "tables": tables,
    }
    p = os.path.join(os.path.dirname(os.path.dirname(os.path.abspath(__file__))), "sa", "inventory.json")
    with open(p, "w") as f:
        json.dump(out, f, indent=0, sort_keys=True)
    print("%d functions, %d shared tables -> %s" % (len(funcs), len(tables), p))


if __name__ == "__main__":
    main()
